/-
C03 — PDU encode/decode round trip for every message type and field value.
PARTIAL: command_length is proved for all fifteen classes and every field assignment; the
header and the round trip are proved for the body-less classes, for submit_sm_resp /
deliver_sm_resp, for the three bind requests and the three bind responses (13 of the 15 classes);
for submit_sm / deliver_sm it is proved for text in short_message (`sm_round_trip_short`, codec and time
round trips as explicit facts; `sm_round_trip_gsm` with none left), for text in message_payload
(`sm_round_trip_gsm_payload`) and WITH ANY LIST OF CONFORMANT OPTIONAL PARAMETERS in either case
(`sm_round_trip_params`, `sm_round_trip_payload_params`, `sm_round_trip_gsm_params`,
`sm_round_trip_gsm_payload_params`: induction through the TLV loop, the normalisations stated by `normal`);
`time_facts_*` discharge the time hypotheses; UCS2 text has no codec hypothesis left either (`sm_round_trip_ucs2_fallback`,
`sm_round_trip_ucs2_fallback_payload`, `sm_round_trip_ucs2_default`: the UTF-16-BE round trip on scalar values is a lemma);
a UDH (concatenation header inside the text) and the ascii / latin_1 / packed codecs stay behind the explicit codec
facts / the correspondence + round-trip predicate.
-/
import SmppVerif.Lemmas.Pdu
import SmppVerif.Lemmas.BindRound
import SmppVerif.Lemmas.SmRead
import SmppVerif.Lemmas.TlvRound
import SmppVerif.Lemmas.SmUcs2

namespace SmppVerif.Props.C03
open SmppVerif SmppVerif.Pdu SmppVerif.Lemmas.Pdu

/-- The command_length in the produced header always equals the number of bytes produced —
    all 15 classes, every field value for which `pdu()` returns at all. -/
theorem command_length (dflt : Enc) (m : Msg) (b : List Nat) (e : Option Enc)
    (h : pdu dflt m = .ok (b, e)) : beVal (b.take 4) = b.length :=
  pdu_len dflt m b e h

/-- `struct.pack` and `unpack_from` are inverse on the representable range, at any offset. -/
theorem pack_unpack (w : Nat) (v : Int) (l pre post : List Nat) (h : packU w v = .ok l) :
    unpackU w (pre ++ l ++ post) pre.length = .ok v.toNat ∧ l.length = w ∧ 0 ≤ v ∧ v < (256 : Int) ^ w :=
  ⟨unpackU_pack w v l pre post h, packU_length w v l h, (packU_ok w v l h).1, (packU_ok w v l h).2.1⟩

/-- The header `pack_header` writes parses back to (length, command, status, sequence number). -/
theorem header_round_trip (len : Nat) (m : Msg) (hd body : List Nat) (h : packHeader len m = .ok hd)
    (hst : enumHas Gen.Enums.smppCommandStatus m.status = true) :
    parseHeader ((hd ++ body).take 16) = .ok ⟨len, m.command, m.status, m.seq.toNat⟩ :=
  parseHeader_of_packHeader len m hd body h hst

/-- Round trip, body-less classes (enquire_link, enquire_link_resp, unbind, unbind_resp,
    generic_nack) for every sequence number and every status member. -/
theorem bodyless_round_trip (dflt : Enc) (m : Msg) (b : List Nat) (e : Option Enc)
    (hm : (∃ s st, m = .enquireLink s st) ∨ (∃ s st, m = .enquireLinkResp s st) ∨
          (∃ s st, m = .unbind s st) ∨ (∃ s st, m = .unbindResp s st) ∨
          (∃ s st l x, m = .genericNack s st l x))
    (h : pdu dflt m = .ok (b, e)) (hst : enumHas Gen.Enums.smppCommandStatus m.status = true) :
    decode b dflt = .ok (untracked m) :=
  Lemmas.Pdu.bodyless_round_trip dflt m b e hm h hst

/-- Round trip, submit_sm_resp / deliver_sm_resp: any ASCII message id up to 64 characters. -/
theorem smResp_round_trip (dflt : Enc) (r : SmResp) (deliver : Bool) (b : List Nat) (e : Option Enc)
    (h : pdu dflt (if deliver then .deliverSmResp r else .submitSmResp r) = .ok (b, e))
    (hst : enumHas Gen.Enums.smppCommandStatus r.status = true) (hlen : r.messageId.length ≤ 64) :
    decode b dflt = .ok (untracked (if deliver then .deliverSmResp r else .submitSmResp r)) :=
  Lemmas.Pdu.smResp_round_trip dflt r deliver b e h hst hlen

/-- Round trip, bind_transmitter / bind_receiver / bind_transceiver: every field allowed by SMPP 3.4
    (C-octet strings without NUL up to their maximum lengths, interface_version 0..255, every TON / NPI
    member, every sequence number the header can carry) comes back; the command_status of a request is
    null on the wire. -/
theorem bind_round_trip (dflt : Enc) (k : BindKind) (b : BindReq) (w : Lemmas.BindRound.BindWF b)
    (bytes : List Nat) (e : Option Enc) (hst : enumHas Gen.Enums.smppCommandStatus b.status = true)
    (h : pdu dflt (Msg.bind k b) = .ok (bytes, e)) :
    decode bytes dflt = .ok (Msg.bind k { b with status := 0 }) :=
  Lemmas.BindRound.bind_round_trip dflt k b w bytes e hst h

/-- Round trip, the three bind responses: status, sequence number, system_id, sc_interface_version
    absent or any value 0..255. -/
theorem bindResp_round_trip (dflt : Enc) (k : BindKind) (b : BindResp) (w : Lemmas.BindRound.BindRespWF b)
    (bytes : List Nat) (e : Option Enc) (hst : enumHas Gen.Enums.smppCommandStatus b.status = true)
    (h : pdu dflt (Msg.bindResp k b) = .ok (bytes, e)) :
    decode bytes dflt = .ok (Msg.bindResp k b) :=
  Lemmas.BindRound.bindResp_round_trip dflt k b w bytes e hst h

/-- Round trip, submit_sm / deliver_sm, text in short_message, no optional parameters — for every
    in-range assignment of the seventeen mandatory fields, every default alphabet and every encoding
    choice: the decoded message carries the fields that are on the wire (`readBack`); what is not
    transmitted (tracking fields, request status, local options) takes its default.  The text codec
    and the SMPP time format enter through their round-trip facts: `hdm` (decode of the encoded text)
    and `hfs` / `hfv` (C17), so the statement covers every codec for which such a fact holds. -/
theorem sm_round_trip_short (dflt : Enc) (deliver : Bool) (m : Sm) (w : Lemmas.SmRead.SmRT m) (bytes : List Nat)
    (e : Option Enc) (sm ts tv text : List Nat) (enc' : Option Enc) (encD : Enc) (dc : Nat)
    (schedT validT : Time.TimeObj)
    (hp : pdu dflt (if deliver then Msg.deliverSm m else Msg.submitSm m) = .ok (bytes, e))
    (htp : smTextPart dflt m = .ok (sm, [], enc')) (hdcv : smDataCoding enc' = .ok dc) (hdc : dc < 256)
    (hsm : sm.length < 256)
    (hts : Time.toSmpp m.schedule = .ok ts) (htv : Time.toSmpp m.validity = .ok tv)
    (hcs : Lemmas.PduRead.CStrOK ts ∧ Lemmas.PduRead.CStrOK tv)
    (hfs : Time.fromSmpp ts = .ok schedT) (hfv : Time.fromSmpp tv = .ok validT)
    (henc : (if dc = 0 then Except.ok dflt else encOfDataCoding dc) = .ok encD)
    (hdm : decodeMessage m.esmClass.toNat (decodeCodec encD) sm = .ok (text, []))
    (htext : text ≠ []) (hst : enumHas Gen.Enums.smppCommandStatus m.status = true) :
    decode bytes dflt = .ok (if deliver then Msg.deliverSm (Lemmas.SmRead.readBack m text [] schedT validT encD)
                             else Msg.submitSm (Lemmas.SmRead.readBack m text [] schedT validT encD)) :=
  Lemmas.SmRead.sm_round_trip_short dflt deliver m w bytes e sm ts tv text enc' encD dc schedT validT
    hp htp hdcv hdc hsm hts htv hcs hfs hfv henc hdm htext hst

/-- … instantiated with no hypothesis left for the default alphabet GSM 03.38 and automatic encoding:
    every text over the alphabet (extension characters included) that fits short_message. -/
theorem sm_round_trip_gsm (deliver : Bool) (m : Sm) (w : Lemmas.SmRead.SmRT m) (bytes : List Nat) (e : Option Enc)
    (hp : pdu encGsm (if deliver then Msg.deliverSm m else Msg.submitSm m) = .ok (bytes, e))
    (henc : m.encoding = none) (hpre : m.encoded = []) (hpay : m.messagePayload = [])
    (heh : m.errorHandling = .mode .strict)
    (htext : Gsm.isGsmText m.shortMessage = true) (hne : m.shortMessage ≠ [])
    (hlen : ∀ b, Gsm.encode .strict m.shortMessage = .ok b → b.length ≤ 254)
    (hudhi : m.esmClass.toNat % 128 < 64)
    (htime : m.schedule = .none ∧ m.validity = .none)
    (hst : enumHas Gen.Enums.smppCommandStatus m.status = true) :
    decode bytes encGsm = .ok (if deliver then Msg.deliverSm (Lemmas.SmRead.readBack m m.shortMessage [] .none .none encGsm)
                               else Msg.submitSm (Lemmas.SmRead.readBack m m.shortMessage [] .none .none encGsm)) :=
  Lemmas.SmRead.sm_round_trip_gsm deliver m w bytes e hp henc hpre hpay heh htext hne hlen hudhi htime hst

/-- … and for text that travels in message_payload (given as payload, or moved there because it is longer
    than 254 octets): default alphabet GSM 03.38, any text over the alphabet up to 65535 octets. -/
theorem sm_round_trip_gsm_payload (deliver : Bool) (m : Sm) (w : Lemmas.SmRead.SmRT m) (bytes : List Nat) (e : Option Enc)
    (hp : pdu encGsm (if deliver then Msg.deliverSm m else Msg.submitSm m) = .ok (bytes, e))
    (henc : m.encoding = none) (hpre : m.encoded = []) (hshort : m.shortMessage = [])
    (heh : m.errorHandling = .mode .strict)
    (htext : Gsm.isGsmText m.messagePayload = true) (hne : m.messagePayload ≠ [])
    (hlen : ∀ b, Gsm.encode .strict m.messagePayload = .ok b → b.length < 65536)
    (hudhi : m.esmClass.toNat % 128 < 64)
    (htime : m.schedule = .none ∧ m.validity = .none)
    (hst : enumHas Gen.Enums.smppCommandStatus m.status = true) :
    decode bytes encGsm = .ok (if deliver then Msg.deliverSm (Lemmas.SmRead.readBack m [] m.messagePayload .none .none encGsm)
                               else Msg.submitSm (Lemmas.SmRead.readBack m [] m.messagePayload .none .none encGsm)) :=
  Lemmas.SmRead.sm_round_trip_gsm_payload deliver m w bytes e hp henc hpre hshort heh htext hne hlen hudhi htime hst

/-- UCS2 WITHOUT CODEC HYPOTHESES (the UTF-16-BE round trip on Unicode scalar values is a lemma, Lemmas/Split.lean): default
    alphabet GSM 03.38, automatic encoding, a text that is NOT over the GSM alphabet - the encoder falls back to UCS2 and
    announces data_coding 8; the decoder returns the text and names the encoding `ucs2`.  Any text of scalar values (astral
    characters included, as surrogate pairs) whose UTF-16 form fits short_message. -/
theorem sm_round_trip_ucs2_fallback (deliver : Bool) (m : Sm) (w : Lemmas.SmRead.SmRT m) (bytes : List Nat) (e : Option Enc)
    (hp : pdu encGsm (if deliver then Msg.deliverSm m else Msg.submitSm m) = .ok (bytes, e))
    (henc : m.encoding = none) (hpre : m.encoded = []) (hpay : m.messagePayload = [])
    (heh : m.errorHandling = .mode .strict)
    (hsc : ∀ c ∈ m.shortMessage, Lemmas.Split.Scalar c) (hnot : Gsm.isGsmText m.shortMessage = false)
    (hlen : (Utf16.unitsToBytes (Lemmas.SmUcs2.units m.shortMessage)).length ≤ 254)
    (hudhi : m.esmClass.toNat % 128 < 64)
    (htime : m.schedule = .none ∧ m.validity = .none)
    (hst : enumHas Gen.Enums.smppCommandStatus m.status = true) :
    decode bytes encGsm = .ok (if deliver then Msg.deliverSm (Lemmas.SmRead.readBack m m.shortMessage [] .none .none encUcs2)
                               else Msg.submitSm (Lemmas.SmRead.readBack m m.shortMessage [] .none .none encUcs2)) :=
  Lemmas.SmUcs2.sm_round_trip_ucs2_fallback deliver m w bytes e hp henc hpre hpay heh hsc hnot hlen hudhi htime hst

/-- … the same with the text in message_payload, up to 65535 octets … -/
theorem sm_round_trip_ucs2_fallback_payload (deliver : Bool) (m : Sm) (w : Lemmas.SmRead.SmRT m) (bytes : List Nat) (e : Option Enc)
    (hp : pdu encGsm (if deliver then Msg.deliverSm m else Msg.submitSm m) = .ok (bytes, e))
    (henc : m.encoding = none) (hpre : m.encoded = []) (hshort : m.shortMessage = [])
    (heh : m.errorHandling = .mode .strict)
    (hsc : ∀ c ∈ m.messagePayload, Lemmas.Split.Scalar c) (hnot : Gsm.isGsmText m.messagePayload = false)
    (hlen : (Utf16.unitsToBytes (Lemmas.SmUcs2.units m.messagePayload)).length < 65536)
    (hudhi : m.esmClass.toNat % 128 < 64)
    (htime : m.schedule = .none ∧ m.validity = .none)
    (hst : enumHas Gen.Enums.smppCommandStatus m.status = true) :
    decode bytes encGsm = .ok (if deliver then Msg.deliverSm (Lemmas.SmRead.readBack m [] m.messagePayload .none .none encUcs2)
                               else Msg.submitSm (Lemmas.SmRead.readBack m [] m.messagePayload .none .none encUcs2)) :=
  Lemmas.SmUcs2.sm_round_trip_ucs2_fallback_payload deliver m w bytes e hp henc hpre hshort heh hsc hnot hlen hudhi htime hst

/-- … and with UCS2 as the configured default alphabet (data_coding 0 written and read with the default). -/
theorem sm_round_trip_ucs2_default (deliver : Bool) (m : Sm) (w : Lemmas.SmRead.SmRT m) (bytes : List Nat) (e : Option Enc)
    (hp : pdu encUcs2 (if deliver then Msg.deliverSm m else Msg.submitSm m) = .ok (bytes, e))
    (henc : m.encoding = none) (hpre : m.encoded = []) (hpay : m.messagePayload = [])
    (heh : m.errorHandling = .mode .strict)
    (hsc : ∀ c ∈ m.shortMessage, Lemmas.Split.Scalar c) (hne : m.shortMessage ≠ [])
    (hlen : (Utf16.unitsToBytes (Lemmas.SmUcs2.units m.shortMessage)).length ≤ 254)
    (hudhi : m.esmClass.toNat % 128 < 64)
    (htime : m.schedule = .none ∧ m.validity = .none)
    (hst : enumHas Gen.Enums.smppCommandStatus m.status = true) :
    decode bytes encUcs2 = .ok (if deliver then Msg.deliverSm (Lemmas.SmRead.readBack m m.shortMessage [] .none .none encUcs2)
                                else Msg.submitSm (Lemmas.SmRead.readBack m m.shortMessage [] .none .none encUcs2)) :=
  Lemmas.SmUcs2.sm_round_trip_ucs2_default deliver m w bytes e hp henc hpre hpay heh hsc hne hlen hudhi htime hst

/-- non-vacuity of the text hypotheses: "жж😀" is a text of scalar values outside the GSM alphabet; its UTF-16 form has 8 octets -/
example : (∀ c ∈ [0x436, 0x436, 0x1F600], Lemmas.Split.Scalar c) ∧ Gsm.isGsmText [0x436, 0x436, 0x1F600] = false ∧
    (Utf16.unitsToBytes (Lemmas.SmUcs2.units [0x436, 0x436, 0x1F600])).length = 8 := by
  refine ⟨?_, by decide +kernel, by decide +kernel⟩
  intro c hc
  simp only [List.mem_cons, List.mem_nil_iff, or_false] at hc
  rcases hc with rfl | rfl | rfl <;> exact ⟨by decide, by decide⟩

/-- The time hypotheses of `sm_round_trip_short` can be met for every absolute time of 2000–2099 with a
    quarter-hour offset and for every relative time up to 63 weeks (C17): the string written is a C-octet
    string and reads back to the same instant (tenths of a second / whole seconds). -/
theorem time_facts_abs (d : Time.DateTime) (h : Lemmas.Time.WFabs d) :
    ∃ ts, Time.toSmpp (.abs d) = .ok ts ∧ Lemmas.PduRead.CStrOK ts ∧
      Time.fromSmpp ts = .ok (.abs { d with micro := d.micro / 100000 * 100000, offset := some (d.offset.getD 0) }) :=
  Lemmas.SmRead.time_facts_abs d h

theorem time_facts_rel (t : Time.TimeDelta) (h : Lemmas.Time.WFrel t) :
    ∃ ts, Time.toSmpp (.rel t) = .ok ts ∧ Lemmas.PduRead.CStrOK ts ∧ Time.fromSmpp ts = .ok (.rel { t with micros := 0 }) :=
  Lemmas.SmRead.time_facts_rel t h

/-! ### optional parameters -/

open Lemmas.TlvRound in
/-- Round trip WITH optional parameters, text in short_message: every list of parameters SMPP 3.4 allows
    (`TlvOK`: two-octet tag other than message_payload, value of the tag's type and width) comes back in the order
    given, normalised as documented (`normal`: an unset flag is absent, a bool held for an integer parameter is 0 / 1);
    the SAR parameters are withheld while the UDH indicator is set (`smParams`).  Codec and time facts as in
    `sm_round_trip_short`. -/
theorem sm_round_trip_params (dflt : Enc) (deliver : Bool) (m : Sm) (w : SmRTP m) (bytes : List Nat)
    (e : Option Enc) (sm ts tv text : List Nat) (enc' : Option Enc) (encD : Enc) (dc : Nat)
    (schedT validT : Time.TimeObj)
    (hp : pdu dflt (if deliver then Msg.deliverSm m else Msg.submitSm m) = .ok (bytes, e))
    (htp : smTextPart dflt m = .ok (sm, [], enc')) (hdcv : smDataCoding enc' = .ok dc) (hdc : dc < 256)
    (hsm : sm.length < 256)
    (hts : Time.toSmpp m.schedule = .ok ts) (htv : Time.toSmpp m.validity = .ok tv)
    (hcs : Lemmas.PduRead.CStrOK ts ∧ Lemmas.PduRead.CStrOK tv)
    (hfs : Time.fromSmpp ts = .ok schedT) (hfv : Time.fromSmpp tv = .ok validT)
    (henc : (if dc = 0 then Except.ok dflt else encOfDataCoding dc) = .ok encD)
    (hdm : decodeMessage m.esmClass.toNat (decodeCodec encD) sm = .ok (text, []))
    (htext : text ≠ []) (hst : enumHas Gen.Enums.smppCommandStatus m.status = true) :
    decode bytes dflt = .ok (if deliver then Msg.deliverSm (readBackP m text schedT validT encD)
                             else Msg.submitSm (readBackP m text schedT validT encD)) :=
  sm_round_trip_short_params dflt deliver m w bytes e sm ts tv text enc' encD dc schedT validT
    hp htp hdcv hdc hsm hts htv hcs hfs hfv henc hdm htext hst

open Lemmas.TlvRound in
/-- … and with the text in message_payload: the payload parameter first, the others after it. -/
theorem sm_round_trip_payload_params (dflt : Enc) (deliver : Bool) (m : Sm) (w : SmRTP m) (bytes : List Nat)
    (e : Option Enc) (pbytes ts tv text : List Nat) (enc' : Option Enc) (encD : Enc) (dc : Nat)
    (schedT validT : Time.TimeObj)
    (hp : pdu dflt (if deliver then Msg.deliverSm m else Msg.submitSm m) = .ok (bytes, e))
    (htp : smTextPart dflt m = .ok ([], Gen.Tlv.messagePayload / 256 % 256 :: Gen.Tlv.messagePayload % 256 ::
      pbytes.length / 256 % 256 :: pbytes.length % 256 :: pbytes, enc'))
    (hdcv : smDataCoding enc' = .ok dc) (hdc : dc < 256) (hpl : pbytes.length < 65536)
    (hts : Time.toSmpp m.schedule = .ok ts) (htv : Time.toSmpp m.validity = .ok tv)
    (hcs : Lemmas.PduRead.CStrOK ts ∧ Lemmas.PduRead.CStrOK tv)
    (hfs : Time.fromSmpp ts = .ok schedT) (hfv : Time.fromSmpp tv = .ok validT)
    (henc : (if dc = 0 then Except.ok dflt else encOfDataCoding dc) = .ok encD)
    (hdm0 : decodeMessage m.esmClass.toNat (decodeCodec encD) [] = .ok ([], []))
    (hdm : decodeMessage m.esmClass.toNat (decodeCodec encD) pbytes = .ok (text, []))
    (htext : text ≠ []) (hst : enumHas Gen.Enums.smppCommandStatus m.status = true) :
    decode bytes dflt = .ok (if deliver then Msg.deliverSm (readBackPP m text schedT validT encD)
                             else Msg.submitSm (readBackPP m text schedT validT encD)) :=
  Lemmas.TlvRound.sm_round_trip_payload_params dflt deliver m w bytes e pbytes ts tv text enc' encD dc schedT validT
    hp htp hdcv hdc hpl hts htv hcs hfs hfv henc hdm0 hdm htext hst

open Lemmas.TlvRound in
/-- … with no hypothesis about codecs left (default alphabet GSM 03.38, automatic encoding). -/
theorem sm_round_trip_gsm_params (deliver : Bool) (m : Sm) (w : SmRTP m) (bytes : List Nat) (e : Option Enc)
    (hp : pdu encGsm (if deliver then Msg.deliverSm m else Msg.submitSm m) = .ok (bytes, e))
    (henc : m.encoding = none) (hpre : m.encoded = []) (hpay : m.messagePayload = [])
    (heh : m.errorHandling = .mode .strict)
    (htext : Gsm.isGsmText m.shortMessage = true) (hne : m.shortMessage ≠ [])
    (hlen : ∀ b, Gsm.encode .strict m.shortMessage = .ok b → b.length ≤ 254)
    (hudhi : m.esmClass.toNat % 128 < 64)
    (htime : m.schedule = .none ∧ m.validity = .none)
    (hst : enumHas Gen.Enums.smppCommandStatus m.status = true) :
    decode bytes encGsm = .ok (if deliver then Msg.deliverSm (readBackP m m.shortMessage .none .none encGsm)
                               else Msg.submitSm (readBackP m m.shortMessage .none .none encGsm)) :=
  Lemmas.TlvRound.sm_round_trip_gsm_params deliver m w bytes e hp henc hpre hpay heh htext hne hlen hudhi htime hst

open Lemmas.TlvRound in
theorem sm_round_trip_gsm_payload_params (deliver : Bool) (m : Sm) (w : SmRTP m) (bytes : List Nat) (e : Option Enc)
    (hp : pdu encGsm (if deliver then Msg.deliverSm m else Msg.submitSm m) = .ok (bytes, e))
    (henc : m.encoding = none) (hpre : m.encoded = []) (hshort : m.shortMessage = [])
    (heh : m.errorHandling = .mode .strict)
    (htext : Gsm.isGsmText m.messagePayload = true) (hne : m.messagePayload ≠ [])
    (hlen : ∀ b, Gsm.encode .strict m.messagePayload = .ok b → b.length < 65536)
    (hudhi : m.esmClass.toNat % 128 < 64)
    (htime : m.schedule = .none ∧ m.validity = .none)
    (hst : enumHas Gen.Enums.smppCommandStatus m.status = true) :
    decode bytes encGsm = .ok (if deliver then Msg.deliverSm (readBackPP m m.messagePayload .none .none encGsm)
                               else Msg.submitSm (readBackPP m m.messagePayload .none .none encGsm)) :=
  Lemmas.TlvRound.sm_round_trip_gsm_payload_params deliver m w bytes e hp henc hpre hshort heh htext hne hlen hudhi htime hst

/-- Non-vacuity of `TlvOK` and of the normalisation: an integer, a NUL-terminated string, an octet string and a set flag
    are conformant and read back as themselves; an unset flag is conformant and disappears; a bool held for an
    integer parameter reads back as 1. -/
example : (Lemmas.TlvRound.TlvOK ⟨0x0204, .int 513⟩ ∧ Lemmas.TlvRound.TlvOK ⟨0x001D, .str [104, 105]⟩ ∧
    Lemmas.TlvRound.TlvOK ⟨0x001E, .str [49, 50]⟩ ∧ Lemmas.TlvRound.TlvOK ⟨0x130C, .bool true⟩ ∧
    Lemmas.TlvRound.TlvOK ⟨0x130C, .bool false⟩ ∧ Lemmas.TlvRound.TlvOK ⟨0x0005, .bool true⟩) ∧
    [⟨0x0204, .int 513⟩, ⟨0x001D, .str [104, 105]⟩, ⟨0x130C, .bool false⟩, ⟨0x130C, .bool true⟩, ⟨0x0005, .bool true⟩].filterMap
      Lemmas.TlvRound.normal =
    [⟨0x0204, .int 513⟩, ⟨0x001D, .str [104, 105]⟩, ⟨0x130C, .bool true⟩, ⟨0x0005, .int 1⟩] := by decide +kernel

/-- Non-vacuity: a submit_sm_resp with a 3-character id, and a short GSM submit_sm whose PDU
    decodes to itself (kernel evaluation of the SubmitSm encoder and decoder of the model). -/
example : pdu encGsm (.submitSmResp { seq := 7, status := 0, messageId := [97, 98, 99] })
    = .ok ([0, 0, 0, 20, 128, 0, 0, 4, 0, 0, 0, 0, 0, 0, 0, 7, 97, 98, 99, 0], none) := by decide +kernel
example :
    let m : Sm := { seq := 9, shortMessage := [72, 0xFC, 0x20AC], source := ⟨[49], 1, 1⟩, dest := ⟨[50], 1, 1⟩,
                    optionalParams := [⟨0x0204, .int 513⟩] }
    (pdu encGsm (.submitSm m)).bind (fun p => decode p.1 encGsm) = .ok (.submitSm m) := by decide +kernel

end SmppVerif.Props.C03

#print axioms SmppVerif.Props.C03.command_length
#print axioms SmppVerif.Props.C03.pack_unpack
#print axioms SmppVerif.Props.C03.header_round_trip
#print axioms SmppVerif.Props.C03.bodyless_round_trip
#print axioms SmppVerif.Props.C03.smResp_round_trip
#print axioms SmppVerif.Props.C03.bind_round_trip
#print axioms SmppVerif.Props.C03.bindResp_round_trip
#print axioms SmppVerif.Props.C03.sm_round_trip_short
#print axioms SmppVerif.Props.C03.sm_round_trip_gsm
#print axioms SmppVerif.Props.C03.sm_round_trip_gsm_payload
#print axioms SmppVerif.Props.C03.sm_round_trip_ucs2_fallback
#print axioms SmppVerif.Props.C03.sm_round_trip_ucs2_fallback_payload
#print axioms SmppVerif.Props.C03.sm_round_trip_ucs2_default
#print axioms SmppVerif.Props.C03.time_facts_abs
#print axioms SmppVerif.Props.C03.time_facts_rel
#print axioms SmppVerif.Props.C03.sm_round_trip_params
#print axioms SmppVerif.Props.C03.sm_round_trip_payload_params
#print axioms SmppVerif.Props.C03.sm_round_trip_gsm_params
#print axioms SmppVerif.Props.C03.sm_round_trip_gsm_payload_params
