/-
C07 — runs until stopped: reconnects after any failure with back-off, stops cleanly.

Model (Model/Supervisor.lean): start() / connect() / stop() as a function of a fault script — one
element per connect cycle (connect fails after d, bind fails after d, bound after c and the session
ends by itself after d) — of the moment stop() is called, and of the back-off object
(Model/Policy.lean, the model of retrytimer.py).  Tied to esme.py by sessions on the virtual-time
loop: the scripted SMSC refuses, hangs, rejects the bind with error statuses, answers with the
wrong PDU or garbage, stays silent, closes or resets the link at scripted moments, unbinds; stop()
is called at scripted moments (during connect, while waiting for the bind answer, while bound, in
the grace period, during back-off); the observed connect / bound / unbind / return times are
compared with the model's, in all three bind modes and for several back-off parameters.

CONNECTIONS (Model/Supervisor.lean `conns`, driver op supc): every connection that is established is closed, one at a
time, each before the next is opened and before start() returns (`connections_closed`), tied to the code by the observed
open / close times of the same runs.

What the theorems do not cover (decided by predicates on the observed runs): that the session state
is CLOSED and that the unbind reaches the wire (after repair f1bdb3b); how long a bound session needs to wind down after stop() when the peer neither answers the
unbind nor closes (`lat`: bounded by enquire_link_interval + 1 s, observed, not derived).
-/
import SmppVerif.Lemmas.Supervisor
import SmppVerif.Lemmas.Limiter
import SmppVerif.Gen.Site

namespace SmppVerif.Props.C07
open SmppVerif SmppVerif.Policy SmppVerif.Supervisor SmppVerif.Lemmas.Supervisor

/-- Without stop(), start() never returns: whatever the faults, of any number, every cycle of the
    script is followed by a new connect attempt. -/
theorem runs_until_stopped (lat gs : Nat) (script : List Outcome) (s : St) :
    returnedAt (run none lat gs s script) = none ∧ (connects (run none lat gs s script)).length = script.length :=
  never_returns lat gs script s

/-- … and when it returns, stop() had been called. -/
theorem returns_only_after_stop (ts lat gs : Nat) (script : List Outcome) (s : St) (tr : Nat)
    (h : returnedAt (run (some ts) lat gs s script) = some tr) : ts ≤ tr :=
  returns_after_stop ts lat gs script s tr h

/-- Consecutive failures: each new attempt starts after the failed one's duration plus the back-off delay … -/
theorem failures_backoff (lat gs : Nat) (ds : List Nat) (s : St) :
    connects (run none lat gs s (ds.map .connFail)) = connTimes s.t ds (Backoff.delays ds.length s.bo) :=
  Lemmas.Supervisor.failures_backoff lat gs ds s

/-- … and the delays are 0, min, 2·min, 4·min, …, capped at min·2^m. -/
theorem backoff_sequence (d m k : Nat) (hd : 1 ≤ d) :
    Backoff.delays (k + 1) (Backoff.init d m) = 0 :: (List.range k).map fun i => d * 2 ^ (min i m) :=
  Lemmas.Limiter.backoff_sequence d m k hd

/-- A successful bind makes the back-off start over: the run after a session does not depend on
    how many failures preceded it (next wait: none; then min). -/
theorem bind_resets_backoff (lat gs : Nat) (s : St) (c d g : Nat) (rest : List Outcome) :
    run none lat gs s (.session c d g :: rest) =
      .connect s.t :: .bound (s.t + c) ::
        run none lat gs { t := s.t + c + d + g, bo := { s.bo with nextDelay := s.bo.minDelay } } rest :=
  session_resets lat gs s c d g rest

/-- After stop(), called at any moment, start() returns within B: a connect / bind step in progress
    plus the task grace, a back-off sleep in progress, or the wind-down of the bound session. -/
theorem stop_bounded (ts lat gs S G B : Nat) (hS : S + G ≤ B) (hL : lat ≤ B) (hgs : gs ≤ G)
    (script : List Outcome) (s : St) (tr : Nat) (ht : s.t ≤ ts) (hb : BoWF s.bo) (hc : s.bo.maxDelay ≤ B)
    (hw : ScriptWF S G script) (h : returnedAt (run (some ts) lat gs s script) = some tr) : tr ≤ ts + B :=
  Lemmas.Supervisor.stop_bounded ts lat gs S G B hS hL hgs script s tr ht hb hc hw h

/-- EVERY CONNECTION THAT IS ESTABLISHED IS CLOSED, ONE AT A TIME: whatever the faults and whenever stop() is called (or
    never; `early`: whether a connection whose session ended by itself can still be written to when stop() falls into the
    time its tasks need to end - then it is closed at once, otherwise at the end of the cycle), the connections of a run are (opened, closed) pairs in time order - each is closed before the next one is
    opened, and the last one before the run ends; without stop() each cycle whose `open_connection` succeeded contributes
    exactly one pair. -/
theorem connections_closed (stop : Option Nat) (early : Bool) (script : List Outcome) (s : St) :
    Balanced s.t (conns stop early s script) ∧
    (conns none early s script).length = 2 * (script.filter fun o => match o with | .connFail _ => false | _ => true).length :=
  ⟨conns_balanced stop early script s, conns_count early script s⟩

/-- non-vacuity: the script of the example below; the session's connection is closed when its tasks have ended (24 s) -/
example : conns (some 40000) true ⟨0, Backoff.init 1000 5⟩
    [.connFail 0, .connFail 0, .bindFail 0, .session 0 20000 1000, .connFail 0, .connFail 5000, .connFail 0, .connFail 0] =
    [.opened 1000, .closed 1000, .opened 3000, .closed 24000] := by decide +kernel

/-- non-vacuity: refused, refused, bind rejected, a 20 s session ended by the peer, refused; min 1 s,
    5 doublings; stop() at 40 s falls into the 8 s back-off sleep after the last failure -/
example : run (some 40000) 1000 500 ⟨0, Backoff.init 1000 5⟩
    [.connFail 0, .connFail 0, .bindFail 0, .session 0 20000 1000, .connFail 0, .connFail 5000, .connFail 0, .connFail 0] =
    [.connect 0, .connect 0, .connect 1000, .connect 3000, .bound 3000, .connect 24000, .connect 25000,
     .connect 32000, .connect 36000, .returned 44000] := by decide +kernel
example : BoWF (Backoff.init 1000 5) ∧ ScriptWF 5000 1000 [.connFail 0, .session 0 20000 1000, .connFail 5000] :=
  ⟨init_wf _ _, by simp [ScriptWF]⟩

/-- TIE TO THE SOURCE (regenerated on every run, Gen/Site.lean): one connect cycle of `start()` in source order: connect, reset the back-off, create the three tasks, end them all, close the connection, then the back-off delay - the cycle of Model/Supervisor.lean -/
theorem start_cycle_step_order :
    Gen.Site.startCycle = ["connect", "reset", "_receive_data", "_dequeue_messages", "_connection_keeper", "_end_task", "_end_task", "close", "next_delay", "_end_task"] := by
  decide

/-- TIE TO THE SOURCE (regenerated on every run, Gen/Site.lean): the keep-alive probe is sent as a task of its own before the answer is awaited with the time-out: a peer that neither answers nor reads is given up after socket_timeout and the cycle ends (what the session outcome `session c d g` with a keeper time-out stands for) -/
theorem keeper_step_order :
    Gen.Site.keeper = ["create_task", "create_task", "EnquireLink", "_send_data", "create_task", "wait_for", "clear", "raise"] := by
  decide

end SmppVerif.Props.C07

#print axioms SmppVerif.Props.C07.runs_until_stopped
#print axioms SmppVerif.Props.C07.returns_only_after_stop
#print axioms SmppVerif.Props.C07.failures_backoff
#print axioms SmppVerif.Props.C07.backoff_sequence
#print axioms SmppVerif.Props.C07.bind_resets_backoff
#print axioms SmppVerif.Props.C07.stop_bounded
#print axioms SmppVerif.Props.C07.start_cycle_step_order
#print axioms SmppVerif.Props.C07.connections_closed
#print axioms SmppVerif.Props.C07.keeper_step_order
