/-
C13 — A response matches only the one outstanding request with its sequence number.
Sequence generator (tier 1) + request store and `_handle_response` correlation (tier 2).
-/
import SmppVerif.Lemmas.Policy
import SmppVerif.Lemmas.Expiry
import SmppVerif.Lemmas.SweepTasks
import SmppVerif.Lemmas.SenderLoop
import SmppVerif.Gen.Site

namespace SmppVerif.Props.C13
open SmppVerif SmppVerif.Policy SmppVerif.Corr SmppVerif.Lemmas.Policy SmppVerif.Lemmas.Corr

/-- The ESME's generator starts in a reachable state with the SMPP limits. -/
theorem esme_generator_ok :
    SeqInv (SeqGen.init Gen.Consts.minSequenceNumber Gen.Consts.maxSequenceNumber) ∧
    Gen.Consts.minSequenceNumber = 1 ∧ Gen.Consts.maxSequenceNumber = 0x7FFFFFFF :=
  ⟨init_inv _ _ (by decide) (by decide), by decide, by decide⟩

/-- Every number handed out lies in `[min, max]` = 1..0x7FFFFFFF, from any reachable state. -/
theorem next_in_range (k : Nat) (g : SeqGen) (h : SeqInv g) :
    ∀ n ∈ g.take k, g.minNum ≤ n ∧ n ≤ g.maxNum :=
  take_in_range k g h

/-- … and `assert_valid_sequence` accepts exactly that range. -/
theorem assert_valid_iff (n : Int) :
    assertValidSequence n = .ok () ↔ (1 ≤ n ∧ n ≤ 0x7FFFFFFF) := by
  unfold assertValidSequence
  have h1 : (Gen.Consts.minSequenceNumber : Int) = 1 := by decide
  have h2 : (Gen.Consts.maxSequenceNumber : Int) = 0x7FFFFFFF := by decide
  rw [h1, h2]
  constructor
  · intro h; by_contra hc; simp [hc] at h
  · intro h; simp [h]

/-- Any `max − min + 1` (= 2³¹ − 1) consecutive requests carry pairwise distinct numbers, from
    any reachable generator state — in particular from just below the maximum: the wrap goes
    to `min`, never to 0.  Hence no outstanding request shares its number with another unless
    2³¹ − 1 requests were issued in between. -/
theorem next_cycle (k : Nat) (g : SeqGen) (h : SeqInv g) (hk : k ≤ g.maxNum - g.minNum + 1) :
    (g.take k).Nodup :=
  take_nodup k g h hk

/-- Wrap-around: after `max` comes `min`. -/
theorem wraps_to_min (g : SeqGen) (h : g.cur = g.maxNum) : g.next.2 = g.minNum := by
  unfold SeqGen.next; simp [h]

/-- Pop on match: once a response has been correlated, the request is gone … -/
theorem match_once (s : CState) (now : Nat) (resp : Msg) :
    aget (Corr.get s now resp).1.store resp.seq = none := by
  have key : ∀ s1 : CState, aget s1.store resp.seq = none →
      aget (removeExpired s1 now).1.store resp.seq = none := by
    intro s1 h1
    cases h : aget (removeExpired s1 now).1.store resp.seq with
    | none => rfl
    | some v =>
      have := (Lemmas.Expiry.sweepStore_sub now (s1.store.map (·.1)) s1).1 resp.seq v
      unfold removeExpired at h; dsimp only at h
      rw [h1] at this; exact absurd (this h) (by simp)
  unfold Corr.get
  cases hs : aget s.store resp.seq with
  | none => dsimp only; exact key s hs
  | some pr =>
    obtain ⟨at0, m0⟩ := pr
    dsimp only
    apply key
    rw [(Lemmas.Expiry.updateSeg_store _ (track resp m0) m0).1]
    exact aget_adel_same _ _

/-- … so a duplicate of that response correlates with nothing. -/
theorem duplicate_finds_nothing (s : CState) (now now' : Nat) (resp : Msg) :
    (Corr.get (Corr.get s now resp).1 now' resp).2.2 = none := by
  have h := match_once s now resp
  generalize (Corr.get s now resp).1 = s1 at h
  unfold Corr.get
  rw [h]

/-- Only the same sequence number: what `get` returns was stored under the response's number. -/
theorem match_only_same_seq (s : CState) (now : Nat) (resp m : Msg)
    (h : (Corr.get s now resp).2.2 = some m) : ∃ at_, aget s.store resp.seq = some (at_, m) := by
  unfold Corr.get at h
  cases hs : aget s.store resp.seq with
  | none => rw [hs] at h; simp at h
  | some pr =>
    obtain ⟨at0, m0⟩ := pr
    rw [hs] at h; dsimp only at h
    cases h; exact ⟨at0, rfl⟩

theorem get_none_of_store_none (s : CState) (now : Nat) (resp : Msg)
    (h : aget s.store resp.seq = none) : (Corr.get s now resp).2.2 = none := by
  unfold Corr.get; rw [h]

/-- No attributed outcome for unsolicited, duplicate or late responses: when the store holds
    nothing under the response's number the handler hands the response over untouched (no
    tracking fields are copied onto it, no throttle count, no delivery correlation). -/
theorem unsolicited_unattributed (s : CState) (now : Nat) (resp : Msg)
    (h : aget s.store resp.seq = none) :
    (handleResponse s now resp).2.2.2 = .msg resp ∧ (handleResponse s now resp).2.2.1 = [] := by
  unfold handleResponse
  rw [get_none_of_store_none s now resp h]
  exact ⟨rfl, rfl⟩

/-- A response of the wrong type for the request stored under its number is dropped (never
    attributed). -/
theorem mismatched_dropped (s : CState) (now : Nat) (resp o : Msg)
    (hs : (Corr.get s now resp).2.2 = some o) (hm : mismatch resp o = true) :
    (handleResponse s now resp).2.2.2 = .dropped := by
  unfold handleResponse
  rw [hs]
  simp [hm]

/-- Tracking fields come only from the request stored under exactly the response's sequence
    number, and only when that request is a submit and the response a submit_sm_resp or
    generic_nack: in every other case the handler yields the response unchanged, or nothing. -/
theorem attribution_source (s : CState) (now : Nat) (resp : Msg) :
    (handleResponse s now resp).2.2.2 = .msg resp ∨ (handleResponse s now resp).2.2.2 = .dropped ∨
    ∃ at_ o, aget s.store resp.seq = some (at_, o) ∧ attributable resp o = true := by
  unfold handleResponse
  cases hg : (Corr.get s now resp).2.2 with
  | none => left; rfl
  | some o =>
    obtain ⟨at_, hst⟩ := match_only_same_seq s now resp o hg
    dsimp only
    by_cases hm : mismatch resp o = true
    · right; left; simp [hm]
    · by_cases ha : attributable resp o = true
      · right; right; exact ⟨at_, o, hst, ha⟩
      · left; simp [hm, ha]

/-- Non-vacuity: a duplicate submit_sm_resp after the real one is handed over without log_id. -/
example :
    let m : Msg := { kind := .submitSm, seq := 5, logId := 7 }
    let r : Msg := { kind := .submitSmResp, seq := 5, msgId := [65] }
    let s0 : CState := (put { ttlResp := 1000, ttlDeliv := 1000 } 1 m).1
    (handleResponse s0 2 r).2.2.2 = .msg { r with logId := 7 } ∧
    (handleResponse (handleResponse s0 2 r).1 3 r).2.2.2 = .msg r := by
  decide +kernel

open SmppVerif.SweepTasks SmppVerif.Lemmas.SweepTasks in
/-- At most once, under every interleaving of the correlator's operations at their suspension points
    (Model/SweepTasks.lean): a request stored once is matched by a response or swept out at most once in total, in any
    schedule — a duplicate or late response never finds it a second time, and a response never finds a request that
    has already been reported as timed out (or the other way round). -/
theorem matched_at_most_once_under_interleaving (k : Nat) (evs : List Ev) (w : World)
    (hnew : aget w.cs.store k = none) (hput : inserted k (run w evs).2 ≤ 1) : removed k (run w evs).2 ≤ 1 :=
  at_most_once k evs w hnew hput

open SmppVerif.SenderLoop SmppVerif.Lemmas.SenderLoop in
/-- At the send path (Model/SenderLoop.lean: the Sender working through any queue of messages, plain or segmented, some of
    which may fail to be built): the sequence_number fields of the submit_sm PDUs written are, in order, numbers drawn one
    after the other from the generator — a sublist of its next `n` draws — and therefore pairwise distinct as long as fewer
    numbers are drawn than the generator's period (2^31 - 1 for the default range), also across the wrap-around. -/
theorem sender_sequence_numbers_distinct (dflt : Pdu.Enc) (ms : List Pdu.Sm) (gs : Gens) (hinv : SeqInv gs.seq) :
    ∃ n, (((loop dflt gs ms).flatMap wireOf).map seqOf).Sublist (gs.seq.take n) ∧
      (n ≤ period gs.seq → (((loop dflt gs ms).flatMap wireOf).map seqOf).Nodup) :=
  loop_seqs_nodup dflt ms gs hinv

/-- tie to the source (Gen/Site.lean): `get` pops the request under the response's number before anything is awaited, the
    sweep deletes before it reports -/
theorem correlator_step_order :
    Gen.Site.corrGet = ["pop:_store", "_remove_expired"] ∧
    Gen.Site.removeExpired = ["monotonic", "get:_store", "del:_store", "expired"] := by decide

/-- TIE TO THE SOURCE (regenerated on every run, Gen/Site.lean): `_handle_response` looks the request up exactly once (`correlator.get`) after decoding and before anything is attributed -/
theorem handle_response_step_order :
    Gen.Site.handleResponse.filter (fun x => x ∈ ["from_pdu", "get:correlator", "put_delivery", "get_segmented"]) =
      ["from_pdu", "get:correlator", "put_delivery", "get_segmented"] := by
  decide

/-- TIE TO THE SOURCE (regenerated on every run, Gen/Site.lean): `_send_data` draws the sequence number, builds and announces the PDU, writes it, drains, and only then stores the request: a request whose transmission failed is never outstanding -/
theorem send_data_step_order :
    Gen.Site.sendData.filter (fun x => x ∈ ["next_sequence", "sending", "write", "drain", "put"]) =
      ["next_sequence", "sending", "write", "drain", "put"] := by
  decide

end SmppVerif.Props.C13

#print axioms SmppVerif.Props.C13.esme_generator_ok
#print axioms SmppVerif.Props.C13.next_in_range
#print axioms SmppVerif.Props.C13.assert_valid_iff
#print axioms SmppVerif.Props.C13.next_cycle
#print axioms SmppVerif.Props.C13.wraps_to_min
#print axioms SmppVerif.Props.C13.match_once
#print axioms SmppVerif.Props.C13.duplicate_finds_nothing
#print axioms SmppVerif.Props.C13.match_only_same_seq
#print axioms SmppVerif.Props.C13.get_none_of_store_none
#print axioms SmppVerif.Props.C13.unsolicited_unattributed
#print axioms SmppVerif.Props.C13.mismatched_dropped
#print axioms SmppVerif.Props.C13.attribution_source
#print axioms SmppVerif.Props.C13.matched_at_most_once_under_interleaving
#print axioms SmppVerif.Props.C13.sender_sequence_numbers_distinct
#print axioms SmppVerif.Props.C13.correlator_step_order
#print axioms SmppVerif.Props.C13.handle_response_step_order
#print axioms SmppVerif.Props.C13.send_data_step_order
