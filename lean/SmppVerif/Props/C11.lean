/-
C11 — Packed GSM codec implements 3GPP septet packing for every length and alignment.
-/
import SmppVerif.Lemmas.Packed

namespace SmppVerif.Props.C11
open SmppVerif SmppVerif.Packed SmppVerif.Spec.Packing

/-- The pack loop never reads outside the septet array and its output is the 3GPP packing
    (the first ⌈7n/8⌉ base-256 digits of the septets read as a base-128 number). -/
theorem pack_eq_spec (s : List Nat) (h : AllLt 128 s) : packCodes s = .ok (Spec.Packing.pack s) :=
  Lemmas.Packed.packCodes_eq_spec s h

/-- The unpack loop yields the first ⌊8n/7⌋ base-128 digits of the octets read as a
    base-256 number — every whole septet, for every octet string. -/
theorem unpack_eq_spec (b : List Nat) (h : AllLt 256 b) : Packed.unpack b = Spec.Packing.unpack b :=
  Lemmas.Packed.unpack_eq_spec b h

/-- Unpacking recovers the septets; one extra zero septet exactly when 8n-1 septets leave
    seven pad bits (the standard's own ambiguity). -/
theorem unpack_pack (s : List Nat) (h : AllLt 128 s) :
    ∃ b, packCodes s = .ok b ∧
      Packed.unpack b = s ++ (if s.length % 8 = 7 then [0] else []) := by
  refine ⟨Spec.Packing.pack s, pack_eq_spec s h, ?_⟩
  rw [unpack_eq_spec _ (Lemmas.Packed.pack_lt s)]
  exact Lemmas.Packed.unpack_pack s h

/-- Length of the packed output. -/
theorem pack_length (s : List Nat) (h : AllLt 128 s) :
    ∃ b, packCodes s = .ok b ∧ b.length = (7 * s.length + 7) / 8 :=
  ⟨_, pack_eq_spec s h, Lemmas.Packed.bytesOf_length _ _⟩

/-- The packed output is the packing of the unpacked GSM encoding of the same text (every
    error mode), and in strict mode exactly the alphabet is accepted. -/
theorem encode_is_pack_of_gsm (m : Mode) (t : List Nat) :
    Packed.encode m t = (match Gsm.toGsmCodes m t with
                         | .error e => .error e
                         | .ok ks => packCodes ks) := rfl

/-- Text round trip for every length and bit alignment and every decoder mode; the only
    tolerated difference is one trailing commercial-at when the septet count is ≡ 7 (mod 8). -/
theorem decode_encode (m : Mode) (t : List Nat) (h : Gsm.isGsmText t = true) :
    ∃ b, Packed.encode .strict t = .ok b ∧
      Packed.decode m b = .ok (t ++ (if (Gsm.septetLength t) % 8 = 7 then [0x40] else [])) :=
  Lemmas.Packed.decode_encode m t h

/-- Non-vacuity: "Hülk" (the suite's only vector) and a 7-septet text with an extension
    character straddling an octet boundary. -/
example : Packed.encode .strict [0x48, 0xFC, 0x6C, 0x6B] = .ok [0x48, 0x3F, 0x7B, 0x0D] := by decide
example : Gsm.septetLength [0x41, 0x20AC, 0x42, 0x5B, 0x43] % 8 = 7 ∧
    (∃ b, Packed.encode .strict [0x41, 0x20AC, 0x42, 0x5B, 0x43] = .ok b ∧
      Packed.decode .strict b = .ok [0x41, 0x20AC, 0x42, 0x5B, 0x43, 0x40]) := by
  refine ⟨by decide, _, rfl, by decide⟩

end SmppVerif.Props.C11

#print axioms SmppVerif.Props.C11.pack_eq_spec
#print axioms SmppVerif.Props.C11.unpack_eq_spec
#print axioms SmppVerif.Props.C11.unpack_pack
#print axioms SmppVerif.Props.C11.pack_length
#print axioms SmppVerif.Props.C11.encode_is_pack_of_gsm
#print axioms SmppVerif.Props.C11.decode_encode
