/-
C06 — nothing the application queues can stop the session; failures reach send_error.

Model (Model/Sender.lean): one iteration of `_dequeue_messages` for a SubmitSm — the segmentation
decision of esme.py 445-490 (reference number drawn, UDHI / SAR paths, clone with SAR parameters,
pre-encoded parts), then `pdu()` of every message to send with consecutive sequence numbers — as a
function to the PDUs written or to the exception handed to send_error.  The encoder, the text
codecs and the splitters are the models tied to protocol.py / codec.py / utils.py by C03, C04, C08,
C10, C11, C17; the sender iteration itself is tied to esme.py by queueing constructible messages to
a real bound session and comparing PDUs and error class.

Theorems: for EVERY SubmitSm whose optional parameters the OptionalParam constructor accepts, every
default alphabet and reference number, whatever fails in the iteration is a ValueError /
UnicodeError / LookupError / struct.error (`failure_classes`, compositional over encoder, codecs,
time strings, TLVs, splitters, cloning), and each of these is an instance of a class in the
isinstance tuple of esme.py after which the loop goes on (regenerated: Gen/Catch.senderContinues) —
so the Sender task survives every iteration (`sender_survives`).  `RuntimeError` stands for codecs
outside the model, excluded by hypothesis.

QUEUE LEVEL (Model/SenderLoop.lean, Lemmas/SenderLoop.lean): the loop over a whole queue with the sequence-number and
reference generators threaded through.  For every queue of constructible messages: exactly one result per message, in
queue order, each the message's own iteration on the generator state its predecessors left (`queue_in_order`), none
ends the task (`queue_never_stops`), and the wire is the concatenation of the per-message PDUs in queue order
(`wire_in_queue_order`).  That the hook calls made by the real loop are these results (send_error once, with the failing
message) is observed on the real session: per-message and whole-queue correspondence + predicate.
-/
import SmppVerif.Lemmas.ClassesEnc
import SmppVerif.Lemmas.SenderLoop
import SmppVerif.Gen.Site

namespace SmppVerif.Props.C06
open SmppVerif SmppVerif.Pdu SmppVerif.Sender SmppVerif.Lemmas.Classes SmppVerif.Lemmas.ClassesEnc

/-- the only exception classes one sender iteration can produce -/
theorem failure_classes (dflt : Enc) (ref : Nat) (seq : Int) (m : Sm) (h : ParamsOK m)
    (ps : List (List Nat)) (e : Exc) (hf : iteration dflt ref seq m = .failed ps e) : Caught e :=
  iteration_classes dflt ref seq m h ps e hf

/-- each of them lets the loop go on -/
theorem continues_after (e : Exc) (h : Caught e) (hne : e ≠ .runtimeError) :
    Receiver.caughtBy Gen.Catch.senderContinues e = true := sender_continues e h hne

/-- THE SENDER SURVIVES: any constructible SubmitSm is either written out or handed to send_error
    with an error after which `_dequeue_messages` continues with the next message. -/
theorem sender_survives (dflt : Enc) (ref : Nat) (seq : Int) (m : Sm) (h : ParamsOK m)
    (hop : ∀ ps, iteration dflt ref seq m ≠ .failed ps .runtimeError) :
    survives (iteration dflt ref seq m) = true := by
  cases hr : iteration dflt ref seq m with
  | sent ps => rfl
  | failed ps e =>
    have hc := iteration_classes dflt ref seq m h ps e hr
    have hne : e ≠ .runtimeError := fun he => hop ps (he ▸ hr)
    exact sender_continues e hc hne

/-- the SAR parameters the sender adds are acceptable ones -/
theorem sar_parameters_valid (ref seq total : Nat) :
    tlvValid ⟨Gen.Tlv.sarMsgRefNum, .int ref⟩ = true ∧ tlvValid ⟨Gen.Tlv.sarSegmentSeqnum, .int seq⟩ = true ∧
    tlvValid ⟨Gen.Tlv.sarTotalSegments, .int total⟩ = true := sar_valid ref seq total

/-! ### the whole queue -/

open SmppVerif.SenderLoop SmppVerif.Lemmas.SenderLoop in
/-- The messages queued after it are still sent, in the order they were queued: for every queue of constructible
    messages and every state of the two generators, the Sender produces exactly one result per message, in queue order —
    the i-th result is the i-th message's own iteration on the generator state left by the messages before it. -/
theorem queue_in_order (dflt : Enc) (ms : List Sm) (gs : Gens) (hok : ∀ m ∈ ms, ParamsOK m) (hin : ∀ m ∈ ms, InModel dflt m) :
    loop dflt gs ms = List.zipWith (fun g m => (iterationG dflt g m).2) (states dflt gs ms) ms ∧
    (loop dflt gs ms).length = ms.length :=
  ⟨loop_eq dflt ms gs hok hin, loop_length dflt ms gs hok hin⟩

open SmppVerif.SenderLoop SmppVerif.Lemmas.SenderLoop in
/-- … and none of them ends the Sender task: every result is "written" or "handed to send_error with an error after
    which the loop goes on". -/
theorem queue_never_stops (dflt : Enc) (ms : List Sm) (gs : Gens) (hok : ∀ m ∈ ms, ParamsOK m) (hin : ∀ m ∈ ms, InModel dflt m) :
    ∀ r ∈ loop dflt gs ms, survives r = true :=
  loop_all_survive dflt ms gs hok hin

open SmppVerif.SenderLoop SmppVerif.Lemmas.SenderLoop in
/-- the PDUs on the wire are the per-message PDUs concatenated in queue order -/
theorem wire_in_queue_order (dflt : Enc) (ms : List Sm) (gs : Gens) (hok : ∀ m ∈ ms, ParamsOK m) (hin : ∀ m ∈ ms, InModel dflt m) :
    (loop dflt gs ms).flatMap wireOf =
      (List.zipWith (fun g m => wireOf (iterationG dflt g m).2) (states dflt gs ms) ms).flatten :=
  wire_in_order dflt ms gs hok hin

/-- non-vacuity (kernel evaluation): a queue of three messages, the second of which cannot be encoded (explicit gsm0338,
    Cyrillic text): three results — written, handed to send_error, written; the loop goes on -/
example :
    let q : List Sm := [{ shortMessage := [104, 105] }, { shortMessage := [1078], encoding := some encGsm, autoPayload := false },
                        { shortMessage := [111, 107] }]
    let gs : SmppVerif.SenderLoop.Gens := ⟨Policy.SeqGen.init 1 0x7FFFFFFF, ⟨none⟩⟩
    (SmppVerif.SenderLoop.loop encGsm gs q).map (fun r => match r with | .sent ps => ps.length | .failed _ _ => 100) = [1, 100, 1] := by
  decide +kernel

/-- non-vacuity (kernel evaluation of the sender model): a plain message is written; a text outside
    the alphabet under an explicit gsm0338 fails with UnicodeEncodeError and the loop goes on; an
    encoding name without codec fails with LookupError and the loop goes on -/
example : (match iteration encGsm 1 5 { shortMessage := [104, 105] } with | .sent ps => ps.length | _ => 0) = 1 := by
  decide +kernel
example : iteration encGsm 1 5 { shortMessage := [1078], encoding := some encGsm } = .failed [] .unicodeEncodeError ∧
    survives (.failed [] .unicodeEncodeError) = true := by decide +kernel
example : iteration encGsm 1 5 { shortMessage := [104], encoding := some ⟨[120], .missing, none⟩ } = .failed [] .lookupError ∧
    survives (.failed [] .lookupError) = true := by decide +kernel
example : ParamsOK ({ shortMessage := [104, 105], optionalParams := [⟨0x0204, .int 513⟩] } : Sm) := by
  intro t ht; simp at ht; subst ht; decide +kernel

/-- tie to the source (Gen/Site.lean): in `_send_data` the sequence number is drawn and checked before `pdu()` is built, which is
    built before anything is written — the order Model/SenderLoop.lean assumes -/
theorem send_data_step_order :
    Gen.Site.sendData.filter (fun x => x ∈ ["next_sequence", "assert_valid_sequence", "pdu", "write"]) =
      ["next_sequence", "assert_valid_sequence", "pdu", "write"] := by
  decide

/-- TIE TO THE SOURCE (regenerated on every run, Gen/Site.lean): the Sender loop `_dequeue_messages` in source order, projected on what the queue model (Model/SenderLoop.lean) assumes: inside the endless loop a message is taken from the broker, its encoding settled, the reference number drawn, its PDUs sent in a loop, and a failure handed to send_error inside the same iteration -/
theorem sender_loop_step_order :
    Gen.Site.dequeueLoop.filter (fun x => x ∈ ["while", "dequeue", "set_encoding_info", "next_sequence", "_send_data", "send_error", "end-while"]) =
      ["while", "dequeue", "set_encoding_info", "next_sequence", "while", "end-while", "_send_data", "send_error", "end-while"] := by
  decide

end SmppVerif.Props.C06

#print axioms SmppVerif.Props.C06.failure_classes
#print axioms SmppVerif.Props.C06.continues_after
#print axioms SmppVerif.Props.C06.sender_survives
#print axioms SmppVerif.Props.C06.sar_parameters_valid
#print axioms SmppVerif.Props.C06.queue_in_order
#print axioms SmppVerif.Props.C06.queue_never_stops
#print axioms SmppVerif.Props.C06.wire_in_queue_order
#print axioms SmppVerif.Props.C06.send_data_step_order
#print axioms SmppVerif.Props.C06.sender_loop_step_order
