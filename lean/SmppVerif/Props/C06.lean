/-
C06 — nothing the application queues can stop the session; failures reach send_error.

Model (Model/Sender.lean): one iteration of `_dequeue_messages` for a SubmitSm — the segmentation
decision of esme.py 445-490 (reference number drawn, UDHI / SAR paths, clone with SAR parameters,
pre-encoded parts), then `pdu()` of every message to send with consecutive sequence numbers — as a
function to the PDUs written or to the exception handed to send_error.  The encoder, the text
codecs and the splitters are the models tied to protocol.py / codec.py / utils.py by C03, C04, C08,
C10, C11, C17; the sender iteration itself is tied to esme.py by queueing constructible messages to
a real bound session and comparing PDUs and error class.

Theorems: for EVERY SubmitSm whose optional parameters the OptionalParam constructor accepts, every
default alphabet and reference number, whatever fails in the iteration is a ValueError /
UnicodeError / LookupError / struct.error (`failure_classes`, compositional over encoder, codecs,
time strings, TLVs, splitters, cloning), and each of these is an instance of a class in the
isinstance tuple of esme.py after which the loop goes on (regenerated: Gen/Catch.senderContinues) —
so the Sender task survives every iteration (`sender_survives`).  `RuntimeError` stands for codecs
outside the model, excluded by hypothesis.  That send_error is called exactly once, that the next
message goes out, and the order on the wire are observed on the real session (predicate), not proved.
-/
import SmppVerif.Lemmas.ClassesEnc

namespace SmppVerif.Props.C06
open SmppVerif SmppVerif.Pdu SmppVerif.Sender SmppVerif.Lemmas.Classes SmppVerif.Lemmas.ClassesEnc

/-- the only exception classes one sender iteration can produce -/
theorem failure_classes (dflt : Enc) (ref : Nat) (seq : Int) (m : Sm) (h : ParamsOK m)
    (ps : List (List Nat)) (e : Exc) (hf : iteration dflt ref seq m = .failed ps e) : Caught e :=
  iteration_classes dflt ref seq m h ps e hf

/-- each of them lets the loop go on -/
theorem continues_after (e : Exc) (h : Caught e) (hne : e ≠ .runtimeError) :
    Receiver.caughtBy Gen.Catch.senderContinues e = true := sender_continues e h hne

/-- THE SENDER SURVIVES: any constructible SubmitSm is either written out or handed to send_error
    with an error after which `_dequeue_messages` continues with the next message. -/
theorem sender_survives (dflt : Enc) (ref : Nat) (seq : Int) (m : Sm) (h : ParamsOK m)
    (hop : ∀ ps, iteration dflt ref seq m ≠ .failed ps .runtimeError) :
    survives (iteration dflt ref seq m) = true := by
  cases hr : iteration dflt ref seq m with
  | sent ps => rfl
  | failed ps e =>
    have hc := iteration_classes dflt ref seq m h ps e hr
    have hne : e ≠ .runtimeError := fun he => hop ps (he ▸ hr)
    exact sender_continues e hc hne

/-- the SAR parameters the sender adds are acceptable ones -/
theorem sar_parameters_valid (ref seq total : Nat) :
    tlvValid ⟨Gen.Tlv.sarMsgRefNum, .int ref⟩ = true ∧ tlvValid ⟨Gen.Tlv.sarSegmentSeqnum, .int seq⟩ = true ∧
    tlvValid ⟨Gen.Tlv.sarTotalSegments, .int total⟩ = true := sar_valid ref seq total

/-- non-vacuity (kernel evaluation of the sender model): a plain message is written; a text outside
    the alphabet under an explicit gsm0338 fails with UnicodeEncodeError and the loop goes on; an
    encoding name without codec fails with LookupError and the loop goes on -/
example : (match iteration encGsm 1 5 { shortMessage := [104, 105] } with | .sent ps => ps.length | _ => 0) = 1 := by
  decide +kernel
example : iteration encGsm 1 5 { shortMessage := [1078], encoding := some encGsm } = .failed [] .unicodeEncodeError ∧
    survives (.failed [] .unicodeEncodeError) = true := by decide +kernel
example : iteration encGsm 1 5 { shortMessage := [104], encoding := some ⟨[120], .missing, none⟩ } = .failed [] .lookupError ∧
    survives (.failed [] .lookupError) = true := by decide +kernel
example : ParamsOK ({ shortMessage := [104, 105], optionalParams := [⟨0x0204, .int 513⟩] } : Sm) := by
  intro t ht; simp at ht; subst ht; decide +kernel

end SmppVerif.Props.C06

#print axioms SmppVerif.Props.C06.failure_classes
#print axioms SmppVerif.Props.C06.continues_after
#print axioms SmppVerif.Props.C06.sender_survives
#print axioms SmppVerif.Props.C06.sar_parameters_valid
