/-
C10 — GSM 03.38 codec is an exact bijection on its alphabet with defined error modes.
Property theorems only; helper lemmas live in Lemmas/Gsm.lean.
-/
import SmppVerif.Lemmas.Gsm

namespace SmppVerif.Props.C10
open SmppVerif SmppVerif.Gsm SmppVerif.Gen.Gsm

/-- The running tables are the tables of 3GPP TS 23.038 (whole table, kernel evaluation). -/
theorem table_eq_spec :
    (∀ k, k < 256 → alookup basicDecode k = Spec.Gsm.basic k) ∧
    extDecode = Spec.Gsm.ext ∧ escape = Spec.Gsm.esc :=
  Lemmas.Gsm.table_eq_spec

/-- Octets are those the 3GPP table prescribes: for every character the strict encoder
    accepts, its septets are the standard's. -/
theorem encChar_eq_spec (c : Nat) (ks : List Nat) (h : encChar .strict c = .ok ks) :
    Spec.Gsm.encodeChar c = some ks :=
  Lemmas.Gsm.encChar_eq_spec c ks h

/-- Every basic character costs one octet, every extension character two, escape first;
    nothing else is accepted in strict mode. -/
theorem encChar_cost (c : Nat) :
    (∃ k, encChar .strict c = .ok [k] ∧ k < 128 ∧ k ≠ escape ∧ alookup basicDecode k = some c) ∨
    (∃ k, encChar .strict c = .ok [escape, k] ∧ k < 128 ∧ k ≠ escape ∧
          alookup extDecode k = some c ∧ alookup basicEncode c = none) ∨
    (encChar .strict c = .error .unicodeEncodeError ∧ inAlphabet c = false) :=
  Lemmas.Gsm.encChar_cost c

/-- Alphabet membership is exactly strict encodability. -/
theorem isGsmText_iff_encodes (t : List Nat) :
    isGsmText t = true ↔ ∃ b, encode .strict t = .ok b :=
  Lemmas.Gsm.isGsmText_iff_encodes t

/-- Round trip: for every string over the alphabet, of any length. -/
theorem decode_encode (t : List Nat) (h : isGsmText t = true) :
    ∃ b, encode .strict t = .ok b ∧ decode .strict b = .ok t ∧
         b.length = (t.filter fun c => (alookup basicEncode c).isSome).length
                  + 2 * (t.filter fun c => !(alookup basicEncode c).isSome).length :=
  Lemmas.Gsm.decode_encode t h

/-- The round trip also holds in the lenient decoder modes (no octet ≥ 0x80 or stray escape
    is ever produced). -/
theorem decode_encode_any_mode (m : Mode) (t : List Nat) (h : isGsmText t = true) :
    ∃ b, encode .strict t = .ok b ∧ decode m b = .ok t :=
  Lemmas.Gsm.decode_encode_any_mode m t h

/-- Neighbours are unaffected: in the lenient modes the encoder is a homomorphism for
    concatenation … -/
theorem toGsmCodes_append (m : Mode) (hm : m ≠ .strict) (a b : List Nat) :
    ∃ ka kb, toGsmCodes m a = .ok ka ∧ toGsmCodes m b = .ok kb ∧
             toGsmCodes m (a ++ b) = .ok (ka ++ kb) :=
  Lemmas.Gsm.toGsmCodes_append m hm a b

/-- … `ignore` drops exactly the characters outside the alphabet … -/
theorem encode_ignore (t : List Nat) :
    toGsmCodes .ignore t = toGsmCodes .strict (t.filter inAlphabet) :=
  Lemmas.Gsm.encode_ignore t

/-- … and `replace` substitutes exactly one septet (< 128, never the escape) for each. -/
theorem encChar_replace_unknown (c : Nat) (h : inAlphabet c = false) :
    ∃ k, encChar .replace c = .ok [k] ∧ k < 128 ∧ k ≠ escape ∧
         (alookup basicDecode k).isSome :=
  Lemmas.Gsm.encChar_replace_unknown c h

/-- Strict mode rejects a string iff it contains a character outside the alphabet. -/
theorem encode_strict_rejects (t : List Nat) :
    encode .strict t = .error .unicodeEncodeError ↔ isGsmText t = false :=
  Lemmas.Gsm.encode_strict_rejects t

/-- Neighbours are unaffected when decoding: the encoding of any GSM text, as a prefix of
    arbitrary further octets, decodes to that text and leaves the rest untouched (any mode). -/
theorem decode_prefix (m : Mode) (t ks rest : List Nat) (h : toGsmCodes .strict t = .ok ks) :
    decodeLoop m false (ks ++ rest) = (decodeLoop m false rest).map (t ++ ·) :=
  Lemmas.Gsm.decode_prefix m t ks rest h

/-- Decoder, octets above 0x7F outside an escape: strict rejects, ignore drops the octet,
    replace yields exactly one '?'; what follows is decoded as it would be alone. -/
theorem decode_high_octet (b : Nat) (hb : 128 ≤ b) (post : List Nat) :
    decodeLoop .strict false (b :: post) = .error .unicodeDecodeError ∧
    decodeLoop .ignore false (b :: post) = decodeLoop .ignore false post ∧
    decodeLoop .replace false (b :: post) = (decodeLoop .replace false post).map (questionMark :: ·) :=
  Lemmas.Gsm.decode_high_octet b hb post

/-- An escape followed by a code without extension entry yields a single placeholder. -/
theorem decode_esc_unknown (m : Mode) (k : Nat) (rest : List Nat)
    (hk : k ≠ escape) (hx : alookup extDecode k = none) :
    decodeLoop m false (escape :: k :: rest) =
      (decodeLoop m false rest).map (noBreakSpace :: ·) :=
  Lemmas.Gsm.decode_esc_unknown m k rest hk hx

/-- A trailing escape: strict rejects, ignore drops, replace yields one placeholder. -/
theorem decode_trailing_esc :
    decodeLoop .strict false [escape] = .error .unicodeDecodeError ∧
    decodeLoop .ignore false [escape] = .ok [] ∧
    decodeLoop .replace false [escape] = .ok [noBreakSpace] :=
  Lemmas.Gsm.decode_trailing_esc

/-- Non-vacuity: a text with basic, national and extension characters meets the hypotheses
    and costs 1 + 1 + 2 + 2 octets. -/
example : isGsmText [0x48, 0xFC, 0x20AC, 0x5B] = true ∧
    encode .strict [0x48, 0xFC, 0x20AC, 0x5B] = .ok [0x48, 0x7E, 0x1B, 0x65, 0x1B, 0x3C] := by
  decide

end SmppVerif.Props.C10

#print axioms SmppVerif.Props.C10.table_eq_spec
#print axioms SmppVerif.Props.C10.encChar_eq_spec
#print axioms SmppVerif.Props.C10.encChar_cost
#print axioms SmppVerif.Props.C10.isGsmText_iff_encodes
#print axioms SmppVerif.Props.C10.decode_encode
#print axioms SmppVerif.Props.C10.decode_encode_any_mode
#print axioms SmppVerif.Props.C10.toGsmCodes_append
#print axioms SmppVerif.Props.C10.encode_ignore
#print axioms SmppVerif.Props.C10.encChar_replace_unknown
#print axioms SmppVerif.Props.C10.encode_strict_rejects
#print axioms SmppVerif.Props.C10.decode_prefix
#print axioms SmppVerif.Props.C10.decode_high_octet
#print axioms SmppVerif.Props.C10.decode_esc_unknown
#print axioms SmppVerif.Props.C10.decode_trailing_esc
