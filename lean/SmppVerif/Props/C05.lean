/-
C05 — nothing the SMSC sends can stop the session or go unanswered.

Two layers.  (1) The decoder model (Model/PduDecode.lean, Receipt.lean — the models the C03/C04/C20
correspondences run against protocol.py) can raise only ValueError, UnicodeError, LookupError
(KeyError, IndexError) and struct.error, for EVERY byte string: `decoder_classes` (compositional
proof over the whole decoder, including the time strings, whose timedelta can be shown never to
overflow).  (2) The receive loop (Model/Receiver.lean) with the except clauses and the class
hierarchy REGENERATED from esme.py and the running interpreter (Gen/Catch.lean): every class of (1)
is an instance of a class the handlers name, so a request with a recognised header gets exactly one
response echoing its sequence number, a response gets none, and the only exception that can leave
the loop comes from an unusable header and is one `_end_task` tolerates and start() answers with a
reconnect.

`RuntimeError` is the models' stand-in for a text codec they do not describe (CJK, ISO-8859-x,
custom codecs): the theorems exclude it by hypothesis; CPython codecs raise UnicodeDecodeError
there, and the correspondence feeds such PDUs to the real session.
Hooks, correlator and transport are outside these theorems: a hook that raises, or a write that
fails while the response is sent, ends the task with that exception (transport errors are tolerated:
C07).  Tied to esme.py by feeding the malformed stream of C03/C04 and its own perturbations to a real
bound session and comparing what is written and whether the link stays up with `receive`.
-/
import SmppVerif.Lemmas.Classes
import SmppVerif.Lemmas.ReceiveLoop
import SmppVerif.Gen.Site

namespace SmppVerif.Props.C05
open SmppVerif SmppVerif.Pdu SmppVerif.Receiver SmppVerif.Lemmas.Classes

/-- Every error of the decoder, for every byte string and default alphabet, is of a class the
    handlers catch. -/
theorem decoder_classes (pdu : List Nat) (dflt : Enc) (e : Exc) (h : decode pdu dflt = .error e) : Caught e :=
  safe_decode pdu dflt e h

/-- … and so is every error of what sits inside the handlers' `try` (from_pdu + parse_receipt). -/
theorem body_classes (pdu : List Nat) (hd : Header) (dflt : Enc) (e : Exc) (h : parseBody pdu hd dflt = .error e) :
    Caught e := safe_parseBody pdu hd dflt e h

/-- the handlers' except clauses (as they are in esme.py now) cover these classes -/
theorem handlers_cover (e : Exc) (h : Caught e) (hne : e ≠ .runtimeError) :
    caughtBy Gen.Catch.handleRequest e = true ∧ caughtBy Gen.Catch.handleResponse e = true :=
  caught_by_handlers e h hne

/-- EXACTLY ONE RESPONSE: a PDU with a recognised header whose command is a request is answered with
    exactly one PDU carrying its sequence number — the matching response with status 0 when it was
    parsed, a generic_nack with a non-zero status when it was not or is not supported. -/
theorem request_answered_once (pdu : List Nat) (dflt : Enc) (hd : Header) (rc : Nat)
    (hh : parseHeader (pdu.take 16) = .ok hd) (hr : responseOf hd.command = some rc)
    (hop : parseBody pdu hd dflt ≠ .error .runtimeError) :
    receive pdu dflt = .respond rc 0 hd.seq ∨
    ∃ st, st ≠ 0 ∧ receive pdu dflt = .respond genericNack st hd.seq := by
  unfold receive
  rw [hh]
  simp only [hr]
  split
  · exact Or.inr ⟨rInvCmdId, by decide, rfl⟩
  · split
    · rename_i e he
      have hc := safe_parseBody pdu hd dflt e he
      have hne : e ≠ .runtimeError := fun h => hop (h ▸ he)
      rw [(caught_by_handlers e hc hne).1]
      exact Or.inr ⟨rUnknownErr, by decide, rfl⟩
    · exact Or.inl rfl

/-- A response PDU is never answered and never stops the loop. -/
theorem response_ignored (pdu : List Nat) (dflt : Enc) (hd : Header)
    (hh : parseHeader (pdu.take 16) = .ok hd) (hr : responseOf hd.command = none)
    (hop : fromPdu pdu hd dflt ≠ .error .runtimeError) :
    receive pdu dflt = .ignore := by
  unfold receive
  rw [hh]
  simp only [hr]
  split
  · rfl
  · split
    · rename_i e he
      have hc := safe_fromPdu pdu hd dflt e he
      have hne : e ≠ .runtimeError := fun h => hop (h ▸ he)
      rw [(caught_by_handlers e hc hne).2]
      rfl
    · rfl

/-- NOTHING ELSE ESCAPES: an exception leaves the receive loop only for an unusable header, and then
    it is a ValueError, which `_end_task` tolerates and start() turns into a reconnect. -/
theorem escape_only_unusable_header (pdu : List Nat) (dflt : Enc) (e : Exc) (hlen : 16 ≤ pdu.length)
    (hop : ∀ hd, parseBody pdu hd dflt ≠ .error .runtimeError ∧ fromPdu pdu hd dflt ≠ .error .runtimeError)
    (h : receive pdu dflt = .escape e) :
    parseHeader (pdu.take 16) = .error e ∧ e = .valueError ∧
      caughtBy Gen.Catch.endTask e = true ∧ caughtBy Gen.Catch.startCycle e = true := by
  cases hh : parseHeader (pdu.take 16) with
  | error e' =>
    unfold receive at h
    rw [hh] at h
    cases h
    exact ⟨rfl, header_errors_tolerated _ (by rw [List.length_take]; omega) e hh⟩
  | ok hd =>
    exfalso
    cases hr : responseOf hd.command with
    | some rc =>
      rcases request_answered_once pdu dflt hd rc hh hr (hop hd).1 with h1 | ⟨st, _, h1⟩ <;> rw [h1] at h <;> cases h
    | none =>
      rw [response_ignored pdu dflt hd hh hr (hop hd).2] at h
      cases h

/-! ### the whole stream -/

open SmppVerif.ReceiveLoop SmppVerif.Lemmas.ReceiveLoop in
/-- VALID PDUs THAT FOLLOW ARE PROCESSED NORMALLY: the Receiver reading a stream (Model/ReceiveLoop.lean: `_get_pdu` in a
    loop — 16 octets, the header, command_length - 16 more octets — whatever the sizes of the pieces TCP delivers) that
    consists of PDUs with recognised headers, followed by an incomplete remainder, handles it PDU by PDU: its actions are
    the per-PDU actions of `receive`, in order.  An unparsable body, an unsupported command, a stray response never
    affects how the PDUs after it are read and answered, and none of the actions is an escape: the loop is still running
    after the last PDU. -/
theorem stream_handled_pdu_by_pdu (dflt : Enc) (pdus : List (List Nat)) (fuel : Nat) (tail : List Nat)
    (hf : pdus.length < fuel) (hw : ∀ p ∈ pdus, Framed dflt p ∧ isUnbind p = false) (ht : getPdu tail = .wait) :
    receiveLoop dflt fuel (pdus.flatten ++ tail) = pdus.map (fun p => receive p dflt) ∧
    ∀ a ∈ receiveLoop dflt fuel (pdus.flatten ++ tail), ∀ e, a ≠ .escape e :=
  ⟨receiveLoop_pdus dflt pdus fuel tail hf hw ht, receiveLoop_no_escape dflt pdus fuel tail hf hw ht⟩

/-- non-vacuity (kernel evaluation): enquire_link, a deliver_sm cut short inside its body (command_length says 18),
    an unsupported request, enquire_link again, then 5 octets of the next header: four answers in order -/
example : SmppVerif.ReceiveLoop.receiveLoop encGsm 10
    ([0,0,0,16, 0,0,0,0x15, 0,0,0,0, 0,0,0,7] ++ [0,0,0,18, 0,0,0,5, 0,0,0,0, 0,0,0,4, 0,0] ++
     [0,0,0,16, 0,0,0,3, 0,0,0,0, 0,0,0,9] ++ [0,0,0,16, 0,0,0,0x15, 0,0,0,0, 0,0,0,8] ++ [0,0,0,16,0]) =
    [.respond 0x80000015 0 7, .respond genericNack rUnknownErr 4, .respond genericNack rInvCmdId 9, .respond 0x80000015 0 8] := by
  decide +kernel

/-- non-vacuity / worked examples (kernel evaluation of the receive model): a well-formed
    enquire_link, an unsupported request (query_sm), a deliver_sm cut short, an unknown command id -/
example : receive [0,0,0,16, 0,0,0,0x15, 0,0,0,0, 0,0,0,7] encGsm = .respond 0x80000015 0 7 := by decide +kernel
example : receive [0,0,0,16, 0,0,0,3, 0,0,0,0, 0,0,0,9] encGsm = .respond genericNack rInvCmdId 9 := by decide +kernel
example : receive [0,0,0,18, 0,0,0,5, 0,0,0,0, 0,0,0,4, 0,0] encGsm = .respond genericNack rUnknownErr 4 := by decide +kernel
example : receive [0,0,0,16, 0x12,0x34,0x56,0x78, 0,0,0,0, 0,0,0,1] encGsm = .escape .valueError := by decide +kernel

/-- tie to the source (Gen/Site.lean): one iteration of `_receive_data` reads a PDU, calls the handler, the received hook
    (one of its two call sites) and then `_send_data` for the response -/
theorem receive_step_order :
    Gen.Site.receiveData = ["_get_pdu", "set", "pdu_handler", "received", "received", "_send_data"] := by decide

end SmppVerif.Props.C05

#print axioms SmppVerif.Props.C05.decoder_classes
#print axioms SmppVerif.Props.C05.body_classes
#print axioms SmppVerif.Props.C05.handlers_cover
#print axioms SmppVerif.Props.C05.request_answered_once
#print axioms SmppVerif.Props.C05.response_ignored
#print axioms SmppVerif.Props.C05.escape_only_unusable_header
#print axioms SmppVerif.Props.C05.stream_handled_pdu_by_pdu
#print axioms SmppVerif.Props.C05.receive_step_order
