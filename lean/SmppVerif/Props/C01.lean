/-
C01 — Every submitted message gets exactly one, correctly attributed send outcome.
Tier 2, PARTIAL: single-step theorems over the correlator/handler model (after repairs
f3792e2, 4216ec2, 30f1721, dec7b5c, c8ff67e) + the aggregation law of segment codes + kernel-
checked counter-examples for the two history classes on which the full statement is false
of the code (known findings), + the HISTORY-LEVEL ledger for unsegmented messages amid arbitrary other
traffic (Lemmas/History.lean).  The history-level ledger for segmented messages is not a theorem; what is
proved here is stated exactly.
-/
import SmppVerif.Lemmas.Ledger
import SmppVerif.Lemmas.History
import SmppVerif.Lemmas.SegHistory
import SmppVerif.Gen.Site

namespace SmppVerif.Props.C01
open SmppVerif SmppVerif.Corr SmppVerif.Lemmas.Corr SmppVerif.Lemmas.Expiry SmppVerif.Lemmas.Ledger

/-- Unsegmented message, answered: a submit_sm_resp or generic_nack carrying the number of a
    stored, unsegmented submit is handed to the hook exactly then, carrying that message's
    log_id and extra_data, and the request is consumed (no second outcome, no time-out). -/
theorem plain_response_outcome (s : CState) (now at_ : Nat) (resp o : Msg)
    (hst : aget s.store resp.seq = some (at_, o)) (hk : o.kind = .submitSm)
    (hplain : aget s.segStore resp.seq = none) (hnosar : o.sarTotal = 0)
    (hr : resp.kind = .submitSmResp ∨ resp.kind = .genericNack) :
    (handleResponse s now resp).2.2.2 = .msg { resp with logId := o.logId, extra := o.extra } ∧
    aget (Corr.get s now resp).1.store resp.seq = none := by
  refine ⟨?_, Props_match_once s now resp⟩
  have hget : (Corr.get s now resp).2.2 = some o := by unfold Corr.get; rw [hst]
  have hmis : mismatch resp o = false := by
    unfold mismatch
    rcases hr with h | h
    · simp [h, requestKindOf, hk]
    · simp [h]
  have hatt : attributable resp o = true := by
    unfold attributable Msg.isSubmitLike
    rcases hr with h | h <;> simp [h, hk]
  -- the segment registration stays absent through the sweeps
  have hseg1 : aget (Corr.get s now resp).1.segStore resp.seq = none := by
    unfold Corr.get; rw [hst]; dsimp only
    apply removeExpired_segStore_none
    rw [updateSeg_segStore]; exact hplain
  unfold handleResponse
  rw [hget]
  dsimp only
  rw [hmis, hatt]
  simp only [Bool.false_eq_true, if_false, if_true]
  have hseg2 : ∀ s1 : CState, aget s1.segStore resp.seq = none →
      aget (if resp.kind = .submitSmResp ∧ resp.status = 0
            then putDelivery s1 now resp.msgId o else (s1, [])).1.segStore resp.seq = none := by
    intro s1 h1
    split
    · unfold putDelivery; dsimp only; exact removeExpired_segStore_none s1 now _ h1
    · exact h1
  have hfix : aget (fixLast (Corr.get s now resp).1 resp
      { resp with logId := o.logId, extra := o.extra }).segStore resp.seq = none := by
    rw [fixLast_segStore]; exact hseg1
  rw [getSegmented_none _ _ _ (hseg2 _ hfix)]
  simp [hnosar]
where
  Props_match_once (s : CState) (now : Nat) (resp : Msg) :
      aget (Corr.get s now resp).1.store resp.seq = none := by
    have key : ∀ s1 : CState, aget s1.store resp.seq = none →
        aget (removeExpired s1 now).1.store resp.seq = none := by
      intro s1 h1
      cases h : aget (removeExpired s1 now).1.store resp.seq with
      | none => rfl
      | some v =>
        have := (sweepStore_sub now (s1.store.map (·.1)) s1).1 resp.seq v
        unfold removeExpired at h; dsimp only at h
        rw [h1] at this; exact absurd (this h) (by simp)
    unfold Corr.get
    cases hs : aget s.store resp.seq with
    | none => dsimp only; exact key s hs
    | some pr =>
      obtain ⟨at0, m0⟩ := pr
      dsimp only
      apply key
      rw [(updateSeg_store _ (track resp m0) m0).1]
      exact aget_adel_same _ _

/-- Unsegmented message, unanswered: reported by the first sweep after expiry, as itself. -/
theorem plain_timeout_outcome (s : CState) (now k at_ : Nat) (m new : Msg)
    (hget : aget s.store k = some (at_, m)) (hov : now - at_ > s.ttlResp)
    (hsub : m.isSubmitLike = true) (hseg : aget s.segStore m.seq = none) :
    Out.sendError m ∈ (put s now new).2 := by
  have : (put s now new).2 = (removeExpired s now).2 := by
    unfold put; dsimp only; split <;> rfl
  rw [this]
  exact removeExpired_emits s now k at_ m hget hov hsub hseg

/-- Segmented message: "still sending" exactly while some segment is … -/
theorem sending_iff_some_segment_sending (l : List (Nat × Int)) (hne : l ≠ [])
    (hl : ∀ p ∈ l, p.2 ≤ sSending) : maxCode l = sSending ↔ ∃ p ∈ l, p.2 = sSending :=
  maxCode_sending_iff l hne hl

/-- … and failure dominates: once none is sending, the message counts as FAILED iff some
    segment was rejected or nacked; EXPIRED ranks above SENT, so a timed-out segment makes the
    whole message a failure too. -/
theorem failure_dominates (l : List (Nat × Int)) (hne : l ≠ []) (hl : ∀ p ∈ l, p.2 ≤ sFailed) :
    (maxCode l = sFailed ↔ ∃ p ∈ l, p.2 = sFailed) ∧ sSent < sExpired ∧ sExpired < sFailed :=
  ⟨maxCode_failed_iff l hne hl, codes_order.1, codes_order.2.1⟩

/-- The pre-registration (repair 4216ec2): the first stored segment of a message marks all
    `total` segments as SENDING. -/
theorem first_put_registers_all (s : CState) (now : Nat) (m : Msg) (hs : m.isSubmitLike = true)
    (ht : m.sarTotal > 0) (hnew : aget (removeExpired s now).1.segStatus m.sarRef = none) :
    ∃ st, aget (put s now m).1.segStatus m.sarRef = some st ∧ st.orig = m ∧
      st.status = aset ((List.range' 1 m.sarTotal).map fun q => (q, sSending)) m.sarSeq sSending := by
  unfold put
  dsimp only
  rw [if_pos ⟨hs, ht⟩]
  dsimp only
  rw [hnew]
  exact ⟨_, aget_aset_same _ _ _, rfl, rfl⟩

/-- A segment whose message status is gone (the message was reported by a sweep that ran
    inside this very operation, repair daeef4d) yields the placeholder, not a second outcome. -/
theorem orphan_segment_placeholder (s : CState) (now : Nat) (resp o : Msg)
    (hget : (Corr.get s now resp).2.2 = some o) (hmis : mismatch resp o = false)
    (hatt : attributable resp o = true) (hsar : o.sarTotal > 0)
    (hgone : (getSegmented
        (if resp.kind = .submitSmResp ∧ resp.status = 0
         then putDelivery (fixLast (Corr.get s now resp).1 resp { resp with logId := o.logId, extra := o.extra })
                now resp.msgId o
         else (fixLast (Corr.get s now resp).1 resp { resp with logId := o.logId, extra := o.extra }, [])).1
        resp.seq false).2.1 = none) :
    (handleResponse s now resp).2.2.2 = .placeholder := by
  unfold handleResponse
  rw [hget]
  dsimp only
  rw [hmis, hatt]
  simp only [Bool.false_eq_true, if_false, if_true]
  rw [hgone]
  simp [hsar]

/-! ### history level: an unsegmented message amid arbitrary other traffic -/

open SmppVerif.Lemmas.History in
/-- LEDGER, unsegmented messages.  Take any history of correlator-level operations from the empty state —
    requests stored (submit_sm, segments of other messages, keep-alive probes), responses handled
    (any type, any status, any order, duplicates, unknown numbers), deliver_sm handled (receipts,
    inbound segments) — at any times, in which the unsegmented submit_sm `m` (log id `L`, sequence
    number `q`) is stored once; the rest of the traffic is only required not to reuse `q` or `L`
    (`Clean`).  Then over the whole history the application sees AT MOST ONE outcome carrying `L`
    (a response handed over with that log id, or send_error(TimeoutError) for a message with it),
    and EXACTLY ONE as soon as some later operation settles the request — the response carrying `q`
    is handled, or a request is stored / a response handled after the time-to-live — provided every
    response carrying `q` is a submit_sm_resp or a generic_nack (the other case is the known finding
    `wrong_type_loses_outcome`). -/
theorem plain_message_exactly_once (L q : Nat) (m : Msg) (pm : Plain L q m) (ttlR ttlD t : Nat)
    (pre post : List Op) (hc : ∀ op ∈ pre ++ post, Clean L q op) :
    let n := (runOps L (initState ttlR ttlD) (pre ++ Op.put t m :: post)).2
    n ≤ 1 ∧ ((∀ op ∈ post, GoodResp q op) → (∃ op ∈ post, Settles q t ttlR op) → n = 1) :=
  plain_ledger (∀ op ∈ post, GoodResp q op) L q m pm ttlR ttlD t pre post hc (fun g => g)

open SmppVerif.Lemmas.History in
/-- NO INVENTED ATTRIBUTION, all messages (segmented or not): over any history from the empty state in which no
    stored request carries the log id `L` (PDUs from the wire carry none), no outcome ever carries `L`. -/
theorem no_outcome_for_unknown_log_id (L ttlR ttlD : Nat) (ops : List Op) (hf : ∀ op ∈ ops, Foreign L op) :
    (runOps L (initState ttlR ttlD) ops).2 = 0 :=
  foreign_ledger L ttlR ttlD ops hf

open SmppVerif.Lemmas.History in
/-- Non-vacuity (a test): message 10 between a segmented message and a probe, answered late by a
    rejection, with a duplicate of the answer and a receipt afterwards: one outcome. -/
example :
    let m : Msg := { kind := .submitSm, seq := 5, logId := 10 }
    let seg (sq sseq : Nat) : Msg :=
      { kind := .submitSm, seq := sq, logId := 7, hasSar := true, sarRef := 4, sarSeq := sseq, sarTotal := 2 }
    let r (sq st : Nat) : Msg := { kind := .submitSmResp, seq := sq, status := st, msgId := [sq] }
    (runOps 10 (initState 1000 100000)
      ([Op.put 1 (seg 1 1), .put 1 (seg 2 2)] ++ Op.put 2 m ::
       [.resp 3 (r 2 0), .put 4 { kind := .enquireLink, seq := 6 }, .resp 5 (r 5 8), .resp 6 (r 5 8), .resp 7 (r 1 0),
        .put 5000 { kind := .enquireLink, seq := 8 }])).2 = 1 := by
  decide +kernel

open SmppVerif.Lemmas.History in
/-- … and unanswered: reported once, by the first request stored after the time-to-live. -/
example :
    let m : Msg := { kind := .submitSm, seq := 5, logId := 10 }
    (runOps 10 (initState 1000 100000)
      ([] ++ Op.put 2 m :: [.put 900 { kind := .enquireLink, seq := 6 }, .put 1003 { kind := .enquireLink, seq := 7 },
        .put 3000 { kind := .enquireLink, seq := 8 }, .resp 3001 { kind := .submitSmResp, seq := 5, msgId := [1] }])).2 = 1 := by
  decide +kernel

/-! ### history level: a segmented message amid arbitrary other traffic -/

open SmppVerif.Lemmas.History SmppVerif.Lemmas.SegHistory in
/-- LEDGER, segmented messages.  `M` is a message the library split into `n` segments (reference `r`,
    log id `L`, pairwise distinct sequence numbers).  Take any history from the empty state into
    which the n segment requests are woven in order (`Weave`): between and after them any other
    requests are stored (other numbers, other log ids, other references), any responses are handled —
    to M's segments in any order, accepted, rejected, nacked, of the wrong type, duplicated, or
    never — and inbound deliver_sm are handled, all at arbitrary times, so that any subset of M's
    segments may time out in any sweep.  Then
    (1) the application sees AT MOST ONE outcome carrying `L` — the sweep that times out the last
        open segment, the response that answers it, or the sweep inside that very response
        handling, never two of them; and
    (2) EXACTLY ONE, if at the end of the history none of M's segment requests is outstanding in the
        correlator (each was answered or swept after its time-to-live) and every response that
        carried one of M's numbers was a submit_sm_resp or a generic_nack.
    Reference reuse is excluded by the hypothesis on other traffic (known finding
    `ref_reuse_misattributes`), wrong-type responses by the hypothesis of (2) (known finding
    `wrong_type_loses_outcome`); delivery receipts are C02's subject. -/
theorem segmented_message_exactly_once (M : SegMsg) (w : M.WF) (ttlR ttlD : Nat) (ops : List Op)
    (hw : Weave M 1 ops) :
    (runOps M.L (initState ttlR ttlD) ops).2 ≤ 1 ∧
    ((∀ op ∈ ops, GoodS M op) → AllGone M (runOps M.L (initState ttlR ttlD) ops).1 →
      (runOps M.L (initState ttlR ttlD) ops).2 = 1) :=
  seg_ledger M w ttlR ttlD ops hw

namespace Example
open SmppVerif.Lemmas.History SmppVerif.Lemmas.SegHistory

def seg (i : Nat) : Msg :=
  { kind := .submitSm, seq := 10 + i, logId := 7, hasSar := true, sarRef := 4, sarSeq := i, sarTotal := 3 }
def M : SegMsg := ⟨7, 4, 3, seg⟩
def r (sq st : Nat) : Msg := { kind := .submitSmResp, seq := sq, status := st, msgId := [sq] }
def other : Msg := { kind := .submitSm, seq := 50, logId := 9 }
def tail : List Op := [.resp 1500 (r 13 0), .put 5000 { kind := .enquireLink, seq := 60 }]
def ops : List Op :=
  [.put 1 (seg 1), .put 2 other, .put 3 (seg 2), .resp 4 (r 12 8), .resp 5 (r 50 0), .put 900 (seg 3)] ++ tail

theorem wf : M.WF :=
  ⟨by decide, fun _ => rfl, fun _ => rfl, fun _ => rfl, fun _ => rfl, fun _ => rfl,
   fun i j h => by have : 10 + i = 10 + j := h; omega⟩

theorem notSeq (k : Nat) (h : k < 11 ∨ 13 < k) : ¬ M.IsSeq k := by
  rintro ⟨i, hi1, hi2, hi⟩
  have e : 10 + i = k := hi
  have : i ≤ 3 := hi2
  omega

/-- Non-vacuity (a test): a 3-segment message, another message in between, segment 2 rejected before
    segment 3 is even stored, segment 1 timing out, segment 3 accepted: the hypotheses are met … -/
theorem weave : Weave M 1 ops := by
  refine Weave.seg 1 1 _ (by decide) ?_
  refine Weave.other 2 _ _ ⟨notSeq 50 (Or.inr (by decide)), by decide, fun h => absurd h (by decide)⟩ ?_
  refine Weave.seg 2 3 _ (by decide) ?_
  refine Weave.other 3 _ _ (by decide : (0 : Nat) ≠ 7) ?_
  refine Weave.other 3 _ _ (by decide : (0 : Nat) ≠ 7) ?_
  refine Weave.seg 3 900 _ (by decide) ?_
  refine Weave.done 4 _ (by decide) ?_
  intro op hop
  unfold Example.tail at hop
  rcases List.mem_cons.mp hop with h | hop
  · subst h; exact (by decide : (0 : Nat) ≠ 7)
  rcases List.mem_cons.mp hop with h | hop
  · subst h; exact ⟨notSeq 60 (Or.inr (by decide)), by decide, fun h => absurd h (by decide)⟩
  · cases hop

/-- … responses have proper types, no segment is outstanding at the end, and one outcome is counted. -/
theorem good : ∀ op ∈ ops, GoodS M op := by
  intro op hop
  cases op with
  | resp now r' => intro _; simp only [ops, tail, List.cons_append, List.nil_append, List.mem_cons, Op.resp.injEq,
      List.not_mem_nil, or_false, reduceCtorEq, false_or] at hop; rcases hop with ⟨_, h⟩ | ⟨_, h⟩ | ⟨_, h⟩ <;> (rw [h]; exact Or.inl rfl)
  | put _ _ => trivial
  | deliver _ _ => trivial

theorem count : (runOps 7 (initState 1000 100000) ops).2 = 1 ∧
    aget (runOps 7 (initState 1000 100000) ops).1.store 11 = none ∧
    aget (runOps 7 (initState 1000 100000) ops).1.store 12 = none ∧
    aget (runOps 7 (initState 1000 100000) ops).1.store 13 = none := by decide +kernel

end Example

/-! ### the two history classes on which the full statement is FALSE of the code
    (kernel-checked on the model; replayed on the real code by the check every run) -/

/-- Reference reuse: message B (log 32) reuses reference 9 while message A (log 31, fully
    accepted) is still in the status store: B's outcome is handed over with A's log_id. -/
theorem ref_reuse_misattributes :
    let seg (sq lg sseq : Nat) : Msg :=
      { kind := .submitSm, seq := sq, logId := lg, hasSar := true, sarRef := 9, sarSeq := sseq, sarTotal := 2 }
    let ok (sq : Nat) : Msg := { kind := .submitSmResp, seq := sq, msgId := [sq] }
    let s0 : CState := { ttlResp := 1000, ttlDeliv := 100000 }
    let s1 := (put (put s0 1 (seg 1 31 1)).1 2 (seg 2 31 2)).1
    let s2 := (handleResponse (handleResponse s1 3 (ok 1)).1 4 (ok 2)).1       -- A reported here
    let s3 := (put (put s2 5 (seg 3 32 1)).1 6 (seg 4 32 2)).1                 -- B reuses ref 9
    let s4 := (handleResponse s3 7 (ok 3)).1
    (handleResponse s4 8 (ok 4)).2.2.2 = .msg { (ok 1) with logId := 31 } := by
  decide +kernel

/-- A wrong-type response consumes the request: the real submit_sm_resp that follows is
    unsolicited (no log_id) and no time-out will ever be reported. -/
theorem wrong_type_loses_outcome :
    let m : Msg := { kind := .submitSm, seq := 5, logId := 10 }
    let s1 := (put { ttlResp := 1000, ttlDeliv := 100000 } 1 m).1
    let wrong : Msg := { kind := .enquireLinkResp, seq := 5 }
    let right : Msg := { kind := .submitSmResp, seq := 5, msgId := [65] }
    (handleResponse s1 2 wrong).2.2.2 = .dropped ∧
    (handleResponse (handleResponse s1 2 wrong).1 3 right).2.2.2 = .msg right ∧
    (put (handleResponse s1 2 wrong).1 5000 { kind := .enquireLink, seq := 6 }).2 = [] := by
  decide +kernel

/-! ### tests (finite, labelled as tests): a 3-segment message under all 6 response orders
    with one rejected segment gives placeholder, placeholder, the failing response. -/
example :
    let seg (sq sseq : Nat) : Msg :=
      { kind := .submitSm, seq := sq, logId := 7, hasSar := true, sarRef := 4, sarSeq := sseq, sarTotal := 3 }
    let r (sq st : Nat) : Msg := { kind := .submitSmResp, seq := sq, status := st, msgId := [sq] }
    let s1 := (put (put (put { ttlResp := 1000, ttlDeliv := 100000 } 1 (seg 1 1)).1 1 (seg 2 2)).1 1 (seg 3 3)).1
    [[1, 2, 3], [1, 3, 2], [2, 1, 3], [2, 3, 1], [3, 1, 2], [3, 2, 1]].all fun order =>
      let step (acc : CState × List Handled) (q : Nat) :=
        let h := handleResponse acc.1 2 (r q (if q = 2 then 8 else 0))
        (h.1, acc.2 ++ [h.2.2.2])
      (order.foldl step (s1, [])).2 =
        [.placeholder, .placeholder, .msg { (r 2 8) with logId := 7 }] := by
  decide +kernel

/-- tie to the source (Gen/Site.lean): `_send_data` stores the request only after the PDU was written and drained (a failed
    transmission leaves nothing in the correlator), and `put` sweeps before it stores -/
theorem send_and_put_step_order :
    Gen.Site.sendData.filter (fun x => x ∈ ["write", "drain", "put"]) = ["write", "drain", "put"] ∧
    Gen.Site.corrPut = ["_remove_expired", "monotonic", "set:_store"] := by decide

/-- TIE TO THE SOURCE (regenerated on every run, Gen/Site.lean), the await points of `_send_data`: the gate (`wait`), the
    sending hook, `drain` and `correlator.put` are awaited and nothing else - so no other task runs between the sending hook
    and `write`, and between `write` and the moment the request is recorded a response can be processed only while `drain`
    or the sweep inside `put` is suspended (the window of the known finding response-overtakes-put, nothing wider). -/
theorem send_data_await_points :
    Gen.Site.sendDataAwaits = ["wait", "await", "sending", "await", "write", "drain", "await", "put", "await"] := by decide

/-- TIE TO THE SOURCE (regenerated on every run, Gen/Site.lean): `_handle_response` in source order: decode, correlate (`correlator.get`), throttle statistics, remember the SMSC id (`put_delivery`), aggregate the segments (`get_segmented`), report an expired message - the order of Model/Corr.lean `handleResponse` -/
theorem handle_response_step_order :
    Gen.Site.handleResponse = ["from_pdu", "get:correlator", "throttled", "not_throttled", "put_delivery", "get_segmented", "send_error"] := by
  decide

end SmppVerif.Props.C01

#print axioms SmppVerif.Props.C01.plain_response_outcome
#print axioms SmppVerif.Props.C01.plain_timeout_outcome
#print axioms SmppVerif.Props.C01.sending_iff_some_segment_sending
#print axioms SmppVerif.Props.C01.failure_dominates
#print axioms SmppVerif.Props.C01.first_put_registers_all
#print axioms SmppVerif.Props.C01.orphan_segment_placeholder
#print axioms SmppVerif.Props.C01.ref_reuse_misattributes
#print axioms SmppVerif.Props.C01.wrong_type_loses_outcome
#print axioms SmppVerif.Props.C01.plain_message_exactly_once
#print axioms SmppVerif.Props.C01.no_outcome_for_unknown_log_id
#print axioms SmppVerif.Props.C01.segmented_message_exactly_once
#print axioms SmppVerif.Props.C01.Example.weave
#print axioms SmppVerif.Props.C01.send_and_put_step_order
#print axioms SmppVerif.Props.C01.send_data_await_points
#print axioms SmppVerif.Props.C01.handle_response_step_order
