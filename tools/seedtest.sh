#!/bin/bash
# tools/seedtest.sh <dir with patch.diff demo.py meta.json> <PROPERTY> [tier]
# Confirms a seeded change in a scratch worktree (tests pass, demo fails with / passes without),
# then applies it to /repo, runs the property's check and undoes it straight away.
set -u
D=$(readlink -f "$1"); P=$2; TIER=${3:-quick}
WT=/tmp/seedtest-wt-$$
git -C /repo worktree add -q $WT HEAD || exit 2
trap 'git -C /repo worktree remove --force '$WT' 2>/dev/null; git -C /repo checkout -- . 2>/dev/null' EXIT
echo "== demo on clean tree"; (cd $WT && PYTHONPATH=$WT /venv/bin/python $D/demo.py >/dev/null 2>&1); echo "demo_clean_exit=$?"
git -C $WT apply $D/patch.diff || { echo "PATCH DOES NOT APPLY"; exit 2; }
echo "== tests with change"; (cd $WT && PYTHONPATH=$WT /venv/bin/python -m pytest -q -p no:cacheprovider tests 2>&1 | tail -1)
echo "== demo with change"; (cd $WT && PYTHONPATH=$WT /venv/bin/python $D/demo.py >/tmp/seedtest-demo-$$.log 2>&1); echo "demo_mut_exit=$?"; tail -2 /tmp/seedtest-demo-$$.log; rm -f /tmp/seedtest-demo-$$.log
git -C /repo apply $D/patch.diff || { echo "PATCH DOES NOT APPLY TO /repo"; exit 2; }
echo "== check $P ($TIER) with change applied to /repo"
(cd /verif && ./check $P --tier $TIER >/tmp/seedtest-chk-$$.log 2>&1); echo "check_exit=$?"; tail -5 /tmp/seedtest-chk-$$.log | cut -c1-400; rm -f /tmp/seedtest-chk-$$.log
git -C /repo checkout -- .
(cd /verif && /venv/bin/python tools/extract.py >/dev/null)
