#!/usr/bin/env python3
"""Regenerate MANIFEST.json from tools/manifest_data.py (single source of the claims)."""
import json, os, sys
HERE = os.path.dirname(os.path.abspath(__file__))
sys.path.insert(0, HERE)
import manifest_data as md
props = [json.loads(l)['id'] for l in open(os.path.join(HERE, '..', 'properties.jsonl'))]
checks = []
for pid in props:
    c = md.CHECKS.get(pid)
    if not c:
        continue
    checks.append({
        'property_id': pid,
        'quick_cmd': './check %s --tier quick' % pid,
        'thorough_cmd': './check %s --tier thorough' % pid,
        'evidence_file': 'evidence/%s.json' % pid,
        'replay_cmd_template': './check %s --replay {path}' % pid,
        'engine': 'lean-proof+correspondence',
        'level_claimed': {'category': 'proof', 'text': c['text'] + getattr(md, 'ADDENDA', {}).get(pid, ''), 'design_ref': c.get('design_ref', 'DESIGN.md §6 ' + pid)},
        'level_note': c['note'],
        'technique': c['technique'],
    })
na = [{'property_id': pid, 'reason': md.NOT_APPLICABLE.get(pid, 'check not built yet in this round (see DESIGN.md §9 staging); not claimed')}
      for pid in props if pid not in md.CHECKS]
man = {
    'version': 1,
    'setup_cmd': './check --setup',
    'hooks': {
        'guard': 'NIKSABALDUN_AIOSMPPLIB_VERIF',
        'enable': 'the checks export NIKSABALDUN_AIOSMPPLIB_VERIF=1; no source hook exists, all observation goes through public plug-ins and patched module globals',
        'baseline_off_cmd': 'cd /repo && /venv/bin/python -m pytest -ra -q -p no:cacheprovider --timeout=900 --continue-on-collection-errors',
        'source_commits': md.HOOK_COMMITS,
        'add_only': True,
    },
    'engines': [{
        'name': 'lean-proof+correspondence', 'path': 'lean/ tools/',
        'serves_properties': [c['property_id'] for c in checks],
        'kind_free_text': 'Lean 4 theorems about executable models (lean/SmppVerif), tables regenerated from the source on every run (tools/extract.py), models tied to the code by differential execution through a line protocol (tools/corr/*.py, lean/Driver.lean)',
    }],
    'checks': checks,
    'notes': md.NOTES,
    'not_applicable': na,
}
with open(os.path.join(HERE, '..', 'MANIFEST.json'), 'w') as f:
    json.dump(man, f, indent=1)
print('MANIFEST.json: %d checks, %d not claimed' % (len(checks), len(na)))
