"""Tier 3 harness: the real ESME.start() on a virtual-time event loop against a scripted SMSC.

Nothing in the library is instrumented: the transport is replaced through
asyncio.open_connection, time through the event loop's clock and the `time` global of the
modules that read time.monotonic, observation goes through the public hook / broker plug-ins.
Every run is deterministic (no wall clock, no randomness apart from the caller's PRNG, task hashes independent of
memory addresses)."""
import asyncio
import heapq
import logging
import struct

T0 = 1000.0


class DetTask(asyncio.Task):
    """a Task whose hash does not depend on its memory address: the library iterates over sets of tasks
    (`for task in pending_tasks`), so the order in which it ends them would otherwise change from run to run.
    `VLoop.task_order` (1 or 7) picks one of the two orders for consecutive tasks in a small set."""
    _count = 0

    def __init__(self, coro, *, loop=None, **kw):
        loop._task_count += 1
        self._det_hash = loop._task_count * loop.task_order      # needed by super().__init__ (set of all tasks)
        super().__init__(coro, loop=loop, **kw)

    def __hash__(self):
        return self._det_hash


class VLoop(asyncio.SelectorEventLoop):
    """event loop whose clock jumps to the next timer when nothing is ready"""
    task_order = 1

    def __init__(self):
        super().__init__()
        self._vt = T0
        self._task_count = 0
        self.deadlocked = False
        self.set_task_factory(lambda loop, coro, **kw: DetTask(coro, loop=loop, **kw))

    def time(self):
        return self._vt

    def _run_once(self):
        while self._scheduled and self._scheduled[0]._cancelled:
            h = heapq.heappop(self._scheduled)
            h._scheduled = False
        if not self._ready and self._scheduled:
            when = self._scheduled[0]._when
            if when > self._vt:
                self._vt = when
        if not self._ready and not self._scheduled and not self._stopping:
            # nothing runnable and no timer pending: with the in-memory transport nothing can ever wake the loop again
            # (every task waits for something that will not happen).  Stop instead of blocking in select() for ever.
            self.deadlocked = True
            self.stop()
        super()._run_once()


class FakeTransport(asyncio.Transport):
    def __init__(self, conn):
        super().__init__()
        self.conn = conn
        self._closing = False

    def write(self, data):
        self.conn.on_write(bytes(data))
        # back-pressure: while the peer is not reading, the protocol is told to pause after every write
        if self.conn.stalled and self.conn.protocol is not None and not self.conn.paused:
            self.conn.paused = True
            self.conn.protocol.pause_writing()

    def is_closing(self):
        return self._closing

    def close(self):
        if not self._closing:
            self._closing = True
            self.conn.on_close()

    def write_eof(self):
        self.conn.on_eof()

    def can_write_eof(self):
        return True

    def set_write_buffer_limits(self, high=None, low=None):
        pass

    def get_write_buffer_size(self):
        return 0

    def abort(self):
        self.close()

    def get_extra_info(self, name, default=None):
        return default


class Conn:
    """one TCP connection as the SMSC sees it"""

    def __init__(self, smsc, idx):
        self.smsc = smsc
        self.idx = idx
        self.buf = b''
        self.closed = False
        self.eof_written = False
        self.broken = None          # exception class raised by drain() once the link is broken
        self.reader = None
        self.protocol = None
        self.writes = []            # every write() call, verbatim
        self.pdus = []              # framed by an independent framer
        self.bound = False
        self.stalled = False        # the peer does not read: drain() suspends
        self.paused = False
        self.held = b''

    def stall(self, on):
        self.stalled = on
        if not on:
            held, self.held = self.held, b''
            if held and not self.broken and not self.closed:
                self.deliver(held)
            if self.paused and self.protocol is not None:
                self.paused = False
                self.protocol.resume_writing()

    def on_write(self, data):
        t = self.smsc.loop.time()
        self.smsc.ev(t, 'write', self.idx, data)
        self.writes.append(data)
        if self.broken:
            return
        if self.stalled:
            # the peer is not reading: the octets wait in the transport's buffer
            self.held += data
            return
        self.deliver(data)

    def deliver(self, data):
        self.buf += data
        while len(self.buf) >= 16:
            ln = struct.unpack('!I', self.buf[:4])[0]
            if ln < 16 or len(self.buf) < ln:
                break
            pdu, self.buf = self.buf[:ln], self.buf[ln:]
            self.pdus.append(pdu)
            self.smsc.on_pdu(self, pdu)

    def on_eof(self):
        self.eof_written = True
        self.smsc.ev(self.smsc.loop.time(), 'write_eof', self.idx)
        if self.smsc.close_on_eof and not self.closed:
            self.smsc.loop.call_soon(self.feed_eof)

    def on_close(self):
        self.closed = True
        self.smsc.ev(self.smsc.loop.time(), 'close', self.idx)

    def feed(self, data):
        if not self.closed and self.reader is not None and not self.reader.at_eof():
            self.reader.feed_data(data)

    def feed_eof(self):
        if self.reader is not None and not self.reader.at_eof():
            self.reader.feed_eof()

    def reset(self, exc=ConnectionResetError):
        """the peer resets the link: pending and later reads and drains fail"""
        self.broken = exc
        if self.reader is not None and self.reader.exception() is None:
            self.reader.set_exception(exc('reset by peer'))
        if self.protocol is not None:
            try:
                self.protocol.connection_lost(exc('reset by peer'))
            except Exception:      # noqa
                pass


def pdu(cmd, status, seq, body=b''):
    return struct.pack('!IIII', 16 + len(body), cmd, status, seq) + body


class Smsc:
    """scripted peer.  Behaviour knobs (all per run):
       connect(n) -> 'ok' | 'refuse' | 'hang' | 'oserror'
       bind(n)    -> ('resp', status) | 'silent' | 'eof' | 'reset' | ('wrong', cmd) | ('raw', bytes)
       on_submit / on_enquire / on_unbind -> callables(conn, seq, pdu) deciding what to answer"""

    def __init__(self, loop):
        self.loop = loop
        self.conns = []
        self.events = []
        self.connect = lambda n: 'ok'
        self.bind = lambda n: ('resp', 0)
        self.msgid = 0
        self.close_on_eof = True
        self.submit_status = lambda seq: 0
        self.submit_delay = lambda seq: 0.0
        self.enquire = lambda conn, seq: 0.0          # delay of the answer; None = no answer
        self.unbind_answer = True
        self.on_deliver_resp = None

    def ev(self, t, *a):
        self.events.append((round(t - T0, 6),) + a)

    async def open_connection(self, host, port, limit=None, **kw):
        n = len([e for e in self.events if e[1] == 'connect'])
        b = self.connect(n)
        self.ev(self.loop.time(), 'connect', n, b)
        if b == 'refuse':
            raise ConnectionRefusedError('refused')
        if b == 'oserror':
            raise OSError('network unreachable')
        if b == 'hang':
            await asyncio.sleep(10 ** 7)
        conn = Conn(self, len(self.conns))
        reader = asyncio.StreamReader(limit=limit or 2 ** 16, loop=self.loop)
        protocol = asyncio.StreamReaderProtocol(reader, loop=self.loop)
        transport = FakeTransport(conn)
        protocol.connection_made(transport)
        writer = asyncio.StreamWriter(transport, protocol, reader, self.loop)
        conn.reader = reader
        conn.protocol = protocol
        conn.attempt = n
        self.conns.append(conn)
        return reader, writer

    def later(self, delay, fn, *a):
        if delay <= 0:
            self.loop.call_soon(fn, *a)
        else:
            self.loop.call_later(delay, fn, *a)

    def on_pdu(self, conn, p):
        ln, cmd, st, seq = struct.unpack('!IIII', p[:16])
        self.ev(self.loop.time(), 'rx', conn.idx, cmd, seq)
        if cmd in (1, 2, 9):
            b = self.bind(conn.attempt)
            if b == 'silent':
                return
            if b == 'eof':
                self.later(0, conn.feed_eof)
            elif b == 'reset':
                self.later(0, conn.reset)
            elif b[0] == 'resp':
                body = b'SMSC\x00' if b[1] in (0, 5) or len(b) > 2 else b''
                conn.bound = b[1] in (0, 5)
                self.later(0, conn.feed, pdu(0x80000000 | cmd, b[1], seq, body))
            elif b[0] == 'wrong':
                self.later(0, conn.feed, pdu(b[1], 0, seq, b''))
            elif b[0] == 'raw':
                self.later(0, conn.feed, b[1])
        elif cmd == 4:
            st = self.submit_status(seq)
            if st is None:
                return
            self.msgid += 1
            # on an error status the body may be left out altogether (SMPP 3.4 4.4.2): every other error response is header-only
            body = (('id%d' % self.msgid).encode() + b'\x00') if st == 0 else (b'\x00' if seq % 2 else b'')
            self.later(self.submit_delay(seq), conn.feed, pdu(0x80000004, st, seq, body))
        elif cmd == 0x15:
            d = self.enquire(conn, seq)
            if d is not None:
                self.later(d, conn.feed, pdu(0x80000015, 0, seq))
        elif cmd == 6:
            if self.unbind_answer:
                self.later(0, conn.feed, pdu(0x80000006, 0, seq))


_LOG_LEVELS = ('TRACE', 'CRITICAL', 'INFO', 'DEBUG', 'TRACE', 'WARNING')
_log_turn = [0]


def next_log_level():
    """deterministic rotation (a check run creates its simulators in a fixed order); VERIF_LOG_LEVEL pins it"""
    import os
    pinned = os.environ.get('VERIF_LOG_LEVEL')
    if pinned:
        return pinned
    _log_turn[0] += 1
    return _LOG_LEVELS[_log_turn[0] % len(_LOG_LEVELS)]


class Hook:
    """recording hook; `delays` maps (kind, call index of that kind) to a sleep before returning"""

    def __init__(self, sim):
        self.sim = sim
        self.delays = {}
        self.counts = {'sending': 0, 'received': 0, 'send_error': 0}

    async def _pause(self, kind):
        i = self.counts[kind]
        self.counts[kind] += 1
        d = self.delays.get((kind, i), self.delays.get((kind, '*'), 0))
        if d:
            await asyncio.sleep(d)

    async def sending(self, m, p, cid):
        self.sim.ev('sending', type(m).__name__, m.sequence_num, bytes(p))
        await self._pause('sending')
        self.sim.ev('sending-done', m.sequence_num)

    async def received(self, m, p, cid):
        self.sim.ev('received', type(m).__name__ if m is not None else None, bytes(p),
                    getattr(m, 'log_id', None), getattr(m, 'extra_data', None),
                    int(m.command_status) if m is not None else None)
        await self._pause('received')
        self.sim.ev('received-done', bytes(p[:16]))

    async def send_error(self, m, err, cid):
        self.sim.ev('send_error', type(m).__name__, getattr(m, 'log_id', None), type(err).__name__)
        await self._pause('send_error')


class Sim:
    def __init__(self, task_order=1, **esme_kw):
        import aiosmpplib
        import aiosmpplib.esme as em
        import aiosmpplib.correlator as cm
        import aiosmpplib.ratelimiter as rl
        import aiosmpplib.throttle as th
        from aiosmpplib.hook import AbstractHook
        self.em = em
        self.loop = VLoop()
        self.loop.task_order = task_order
        asyncio.set_event_loop(self.loop)
        # fire-and-forget tasks of the library (keep-alive probes) may die with the connection: not an event for stderr
        self.loop.set_exception_handler(lambda loop, ctx: None)
        self.smsc = Smsc(self.loop)
        self.events = self.smsc.events
        self._saved_open = asyncio.open_connection
        asyncio.open_connection = self.smsc.open_connection
        # every module of the library that reads the clock (`import time`) reads the simulator's: monotonic() is the loop's
        # virtual time, everything else is the real module's
        import time as _real_time
        import importlib
        import pkgutil
        import aiosmpplib as _pkg
        loop_time = self.loop.time

        class VTime:
            monotonic = staticmethod(loop_time)

            def __getattr__(self, name):
                return getattr(_real_time, name)
        clock = VTime()
        mods = []
        for mi in pkgutil.iter_modules(_pkg.__path__):
            try:
                mod = importlib.import_module('aiosmpplib.' + mi.name)
            except Exception:      # noqa
                continue
            t_ = getattr(mod, 'time', None)
            if t_ is _real_time or isinstance(t_, VTime) or type(t_).__name__ == 'VTime':
                mods.append(mod)
        self._saved_time = [(m, _real_time) for m in mods]
        for m in mods:
            m.time = clock
        sim = self

        h = Hook(self)
        # the properties hold at every log level: the level rotates from one simulated session to the next (records go
        # nowhere), and the application's hook is a subclass of the library's SimpleHook that calls it first, as an
        # application extending the default hook does - so that log.py and hook.py run as they do in a deployment
        from aiosmpplib.hook import SimpleHook
        from aiosmpplib.log import StructuredLogger
        level = next_log_level()
        self.log_level = level

        class H(SimpleHook):
            async def sending(self, smpp_message, pdu, client_id):
                await SimpleHook.sending(self, smpp_message, pdu, client_id)
                await h.sending(smpp_message, pdu, client_id)

            async def received(self, smpp_message, pdu, client_id):
                await SimpleHook.received(self, smpp_message, pdu, client_id)
                await h.received(smpp_message, pdu, client_id)

            async def send_error(self, smpp_message, error, client_id):
                await SimpleHook.send_error(self, smpp_message, error, client_id)
                await h.send_error(smpp_message, error, client_id)
        self.hook = h
        kw = dict(log_handler=logging.NullHandler(), log_level=level,
                  hook=H(StructuredLogger('sim-hook', level, handler=logging.NullHandler())), client_id='sim')
        kw.update(esme_kw)
        self.esme = aiosmpplib.ESME('h', 1, 'sys', 'pw', **kw)
        self.result = None
        self._state_seen = None

    def ev(self, *a):
        self.smsc.ev(self.loop.time(), *a)

    def close(self):
        asyncio.open_connection = self._saved_open
        for m, t in self._saved_time:
            m.time = t
        try:
            self.loop.close()
        except Exception:      # noqa
            pass

    def at(self, t, fn, *a):
        """schedule an environment action at virtual time t (seconds after start)"""
        self.loop.call_at(T0 + t, fn, *a)

    def at_rel(self, dt, fn, *a):
        """schedule an environment action dt seconds from now"""
        self.loop.call_at(self.loop.time() + dt, fn, *a)

    def enqueue(self, m):
        self.ev('enqueue', getattr(m, 'log_id', ''))
        self.esme.broker.queue.put_nowait(m)

    def stop(self):
        async def _stop():
            self.ev('stop-called', self.esme.session_state.name)
            await self.esme.stop()
            self.ev('stop-returned', self.esme.session_state.name)
        self._stop_task = self.loop.create_task(_stop())

    def run(self, horizon, stop_first=False):
        """run start() until it ends or `horizon` virtual seconds passed; returns how it ended"""
        async def main():
            t = self.loop.create_task(self.esme.start(), name='start')
            self.start_task = t
            if stop_first:
                # stop() requested before start() took its first step
                self.ev('stop-called', self.esme.session_state.name)
                await self.esme.stop()
                self.ev('stop-returned', self.esme.session_state.name)

            def watch():
                st = self.esme.session_state.name
                if st != self._state_seen:
                    self._state_seen = st
                    self.ev('state', st)
            # sample the session state at every event the harness sees: wrap ev
            orig = self.smsc.ev

            def ev2(tm, *a):
                orig(tm, *a)
                st = self.esme.session_state.name
                if st != self._state_seen:
                    self._state_seen = st
                    orig(tm, 'state', st)
            self.smsc.ev = ev2
            done, _ = await asyncio.wait({t}, timeout=horizon)
            if t in done:
                exc = t.exception() if not t.cancelled() else 'cancelled'
                self.ev('start-ended', None if exc is None else (exc if isinstance(exc, str) else type(exc).__name__))
                self.result = ('ended', None if exc is None else (exc if isinstance(exc, str) else type(exc).__name__))
            else:
                self.ev('horizon')
                self.result = ('running', None)
                t.cancel()
                try:
                    await t
                except BaseException:      # noqa
                    pass
            # let pending callbacks settle
            for tk in [x for x in asyncio.all_tasks() if x is not asyncio.current_task()]:
                tk.cancel()
            await asyncio.sleep(0)
        try:
            self.loop.run_until_complete(main())
        except RuntimeError:
            if not self.loop.deadlocked:
                raise
            # every task is waiting for something that cannot happen any more: start() never ended
            self.ev('deadlock')
            self.result = ('deadlock', None)
        except asyncio.CancelledError:
            # the environment task itself was cancelled by the code under test: start() did not end in an orderly way
            self.ev('environment-cancelled')
            self.result = ('cancelled', None)
        return self.result
