#!/usr/bin/env python3
"""tools/keepseed.py <srcdir> <seed-id> <property> <detected-by text>: file a confirmed seeded change."""
import json, os, shutil, sys
src, sid, prop, detected = sys.argv[1:5]
dst = os.path.join(os.path.dirname(os.path.dirname(os.path.abspath(__file__))), 'seeded', sid)
os.makedirs(dst, exist_ok=True)
shutil.copy(os.path.join(src, 'patch.diff'), dst)
for f in os.listdir(src):
    if f.startswith('demo'):
        shutil.copy(os.path.join(src, f), dst)
meta = json.load(open(os.path.join(src, 'meta.json')))
meta.update({'property': prop, 'seed_id': sid,
             'confirmed': 'tools/seedtest.sh: patch applies to HEAD of /repo, 133 tests pass with it, demo exits 1 with it and 0 without it',
             'ran': './check %s --tier quick with the patch applied to /repo, undone afterwards' % prop,
             'detected_by': detected})
json.dump(meta, open(os.path.join(dst, 'meta.json'), 'w'), indent=1)
print('kept', dst)
