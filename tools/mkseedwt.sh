#!/bin/bash
# tools/mkseedwt.sh <ID>... : scratch worktrees + property text for mutation sub-agents (outside /repo and /verif)
mkdir -p /tmp/seed
for id in "$@"; do
  git -C /repo worktree add -q /tmp/seed/wt-$id HEAD && mkdir -p /tmp/seed/out-$id
  python3 - "$id" <<'PY'
import json, sys
for l in open('/verif/properties.jsonl'):
    d = json.loads(l)
    if d['id'] == sys.argv[1]:
        open('/tmp/seed/prop-%s.txt' % d['id'], 'w').write(
            "Title: %s\n\nStatement: %s\n\nQuantifier: %s\n\nAnchors (where the mechanism lives): %s\n" % (
                d['title'], d['statement'], d['quantifier']['text'],
                '; '.join('%s @ %s' % (m['name'], m['where']) for m in d['anchors']['mechanism'])))
PY
done
ls /tmp/seed
