"""Claims per property (source of MANIFEST.json; run tools/mkmanifest.py after editing)."""
HOOK_COMMITS = []
NOTES = ('Every check: regenerate Gen/*.lean from /repo, lake build the property theorems, audit axioms and '
         'sources, run the model driver and the real code on the same inputs, evaluate the property predicate '
         'on the real outputs. Exit 2 = machinery error/time-out (never a verdict).')
NOT_APPLICABLE = {}
COMMON_NOTE = ('Trusted: Lean kernel; axioms propext/Quot.sound/Classical.choice only; tools/extract.py; the '
               'correspondence harness and its generators (coverage printed in the evidence); CPython itself. ')
CHECKS = {
    'C10': dict(
        text=('Proof. Theorems in lean/SmppVerif/Props/C10.lean over the executable model of GSM7BitCodec with the '
              'tables regenerated from the running module: tables = 3GPP TS 23.038 (whole table), per-character cost '
              'and escape-first, round trip decode(encode t) = t for every string over the alphabet in every decoder '
              'mode, strict rejection iff outside the alphabet, ignore = filter, replace = exactly one plain septet, '
              'append homomorphism and decode_prefix (neighbours unaffected), high octets / unknown escape / trailing '
              'escape behaviour. Model tied to codec.py by exhaustive single-code-point, octet-pair and '
              'alphabet-pair sweeps plus random strings.'),
        note=COMMON_NOTE + 'Hand transcription of the 3GPP table (Spec/Gsm0338.lean, tools/spec/gsm.py). Not modelled: TypeError for non-str input, exception arguments.',
        technique='Lean 4 theorems (induction on the text + decide +kernel over whole tables) on a model with regenerated tables; differential correspondence'),
    'C11': dict(
        text=('Proof. Props/C11.lean: the Python pack loop (index/count/shift, with its array reads) equals the 3GPP '
              'packing stated as change of radix (octets = base-256 digits of the septets read as a base-128 number) '
              'for every septet list; the unpack loop equals the inverse radix change for every octet string; '
              'unpack(pack s) = s plus one zero septet exactly when |s| = 7 mod 8; text round trip in every decoder '
              'mode with the single tolerated trailing commercial-at. Tied to codec.py by all septet pairs at all 8 '
              'alignments, all lengths 0..64, extension characters at every offset, random texts and octet strings.'),
        note=COMMON_NOTE + 'Spec/Packing.lean states 3GPP TS 23.038 6.1.2.1.1 as a radix change (hand-written). int(x/8) float division modelled as integer division.',
        technique='Lean 4 theorems (loop invariant by induction, 7-way case split + omega for the bit arithmetic); differential correspondence'),
    'C17': dict(
        text=('Proof. Props/C17.lean over the model of datetime_to_smpp_time / smpp_time_to_datetime / '
              'FixedOffset.from_timezone (after the repair dc4f5e2): the absolute format equals SMPP 3.4 7.1.1 '
              'YYMMDDhhmmsstnnp and reads back with identical calendar fields and UTC offset for every date of '
              '2000-2099, every quarter-hour offset in +-12 h or naive, every tenth; the relative format equals '
              'YYMMDDhhmmss000R with the 365/30 decomposition and reads back to the second for every duration '
              '0..63 weeks; longer durations raise ValueError. Finite digit/offset facts by decide +kernel over the '
              'whole range, the rest by omega. Tied to protocol.py/utils.py by sweeps over offsets, month ends, '
              'tenths, all day counts, and malformed strings for the decoder.'),
        note=COMMON_NOTE + 'datetime/timedelta/strftime/int() of CPython are modelled (fields, two-digit formatting, ASCII int parsing), swept, not verified. A tzinfo is reduced to its utcoffset in seconds.',
        technique='Lean 4 theorems (decide +kernel on finite digit tables, omega) on a hand-written model; differential correspondence'),
    'C20': dict(
        text=('Proof. Props/C20.lean over the model of DeliverSm.encode_receipt / parse_receipt / is_receipt: '
              'parse(build r) returns id, counts, both dates to the minute, state, error code and the padded text for '
              'every id/state without blanks (colons allowed), every text (blanks and colons allowed), counts and err '
              '0..999, valid dates in the two-digit-year window 1969..2068; the same for every ASCII casing of the '
              'field names; text is last; receipted_message_id fall-back exactly when the text has no (or an empty) id; '
              'unknown fields kept as strings; non-receipts parse to {}. strptime is modelled as the ordered-alternative '
              'regex of _strptime and proved to accept every formatted date. Tied to protocol.py by generated '
              'dictionaries, recasing, TLV presence, and a malformed stream for the scanner.'),
        note=COMMON_NOTE + 'str.lower/int()/strptime/strftime/f-string formatting modelled on ASCII input only and swept, not verified. Dates outside 1969..2068 cannot round-trip through a two-digit year (format limit, excluded from the domain; see DESIGN.md).',
        technique='Lean 4 theorems (structural scan lemmas, decide +kernel over 0..999 and calendar tables, omega) on a hand-written model; differential correspondence'),
    'C08': dict(
        text=('Proof (splitters). Props/C08.lean over the model of split_sms / split_sms_udh / detect_format (after repairs '
              'c0f1520, abb179b): for every text the SAR segments have at most 254 octets, the UDH segments carry '
              '05 00 03 ref tot seq / 06 08 04 hi lo tot seq with seq = 1..tot in order, tot <= 255, and payloads of at most '
              '153/152 septets (160 with the header) or 134/132 octets (<= 140 with the header); in both methods the '
              'payloads, decoded one by one by a strict independent decoder (GSM table / UTF-16BE) and concatenated, give '
              'exactly the text, hence no boundary inside an escape or surrogate pair. Core lemma: the chunk loop cuts only '
              'at unit boundaries (induction over the loop, any length). The per-segment PDU fields (clone, SAR TLVs) are '
              'tied by the PDU-level correspondence of C03/C06, not yet by a theorem.'),
        note=COMMON_NOTE + 'The UCS2 path is modelled on UTF-16 code units (code chunks octets with even sizes; evenness is a decide obligation on the regenerated constants). CPython utf_16_be codec modelled and swept. Encodings other than gsm0338/ucs2 take the UCS2 path in the code and in the model (property domain: the two alphabets).',
        technique='Lean 4 theorems (induction over the chunk loop with a unit-boundary invariant; GSM/UTF-16 round-trip lemmas); differential correspondence + independent-receiver predicate'),
    'C18': dict(
        text=('Proof, partial in one clause. Props/C18.lean over exact-rational models of SimpleRateLimiter and '
              'SimpleThrottleHandler: (1) window bound proved at full strength: from every reachable state, any attempts at '
              't0 <= ... <= tn pass at most rate*(tn-t0)+rate+1 (potential argument, induction over the attempt list, all '
              'positive rates); (2) progress proved for rates >= 1/s (pass at the first or second retry after >= 1 s sleeps); '
              'the clause for rates below 1/s is FALSE of the code (theorem starves_below_one; known finding '
              'limiter-rate-below-one, replayed on the real object every run); (3) throttle: denied iff sample_size '
              'responses are in and the rounded percentage exceeds deny_request_at, never otherwise; window reset exactly '
              'after sampling_period; sending resumes after the reset; (4) the gate in the session (Model/Gate.lean): a monitor over '
              'the observable events (handler fed, allow_request consulted at a time with its answer, submit_sm written) and a model '
              'of the Sender at the gate; gate_write_not_denied: in every accepted trace a written submit_sm was let through by a '
              'consultation of its own answered True on counters that did not meet the denial condition, nothing but response feeds '
              'in between; sender_accepted: every behaviour of the Sender model under any schedule of responses and clock readings '
              'is accepted; sender_never_writes_denied: with nothing suspending between consultation and write no PDU is written on '
              'denied counters; sender_progress: never suspended otherwise. Tied to the code by real sessions (tools/corr/c18s.py: real '
              'handler and limiter plugged into the real ESME on the virtual-time loop, scripted SMSC answering throttled / queue-full / '
              'other, multi-segment messages, a slow store or hook suspending the Sender between segments): the observed trace must be '
              'accepted by gate.mon, reproduced by gate.sender when no rate limiter waits, and pass an independent predicate '
              '(answers, one consultation per PDU, one feed per response, re-consultation after throttle_wait, rate bound on the '
              'wire, everything sent when never denied). Not proved: that a response handled between a consultation and its write '
              '(rate-limiter wait, slow sending hook) cannot let one approved PDU out on counters that meanwhile reached the denial '
              'condition - the code does allow that, and the statement is read as being about consultations.'),
        note=COMMON_NOTE + 'IEEE doubles are not modelled: the generator uses dyadic rates and times so that every float the code computes is exact; round(x,2) is modelled as round-half-even on the exact rational and inputs within 0.005 of the threshold are outside the predicate. Mathlib (linarith, ring, ordered-field instance of Rat) is used in the lemma file only.',
        technique='Lean 4 theorems (potential-function invariant by induction over attempt lists, linarith over Rat); differential correspondence on a virtual clock'),
    'C09': dict(
        text=('Proof (tier 2, atomic handlers). Props/C09.lean over the model of SimpleCorrelator.put_delivery_segmented and the '
              'deliver_sm branch of ESME._handle_request (after repairs 035d175, 7057b2b, a281261): for every n, every '
              'permutation of the n segments, every interleaving with other deliver_sm traffic (other references, '
              'unsegmented, receipts), while the delivery time-to-live is not exceeded, the hook gets n-1 placeholders and '
              'then exactly one message with the parts in numeric order (induction over the operation list with the '
              'collected-segments entry as invariant; insertion sort = sorted permutation via Mathlib.Data.List.Sort); every '
              'segment is acknowledged (handler never drops); other references do not interfere. Tied to the code by '
              'driving the real ESME._handle_request with PDUs from an independent encoder (SAR TLVs, UDH 8/16-bit, GSM/UCS2, '
              'short_message/message_payload): all permutations for n<=5(6), random to 255, interleavings, duplicates. '
              'Decoding of the UDH/SAR fields themselves belongs to C03/C04.'),
        note=COMMON_NOTE + 'A whole _handle_request is one atomic step here; interleaving of the receiver with other tasks is the session model. Messages are abstracted to the fields the correlation logic reads.',
        technique='Lean 4 theorems (invariant by induction over arbitrary operation lists; sorted-permutation argument); differential correspondence through the real handler'),
    'C13': dict(
        text=('Proof (tier 1 + tier 2, atomic handlers). Props/C13.lean: the sequence generator stays in 1..0x7FFFFFFF from every '
              'reachable state and any max-min+1 consecutive numbers are pairwise distinct, also across the wrap (closed form '
              'min + (pos+i) mod N by induction); assert_valid_sequence accepts exactly that range; correlator get pops on '
              'match (a duplicate response finds nothing), returns only what was stored under the same number; '
              '_handle_response leaves unsolicited/duplicate/late responses unattributed, drops wrong-type responses, and '
              'copies tracking fields only from the submit stored under exactly that number for submit_sm_resp/generic_nack. '
              'Tied to sequence.py directly and to the real ESME._handle_response on histories with duplicates, unknown '
              'numbers, wrong types and generic_nacks. TURN LEVEL (Model/SweepTasks.lean): matched_at_most_once_under_interleaving - with the '
              'correlator operations interleaved at their suspension points in any schedule, a request stored once is matched or swept '
              'out at most once in total; tied by random schedules driven through the real correlator (c.sched). SESSION LEVEL '
              '(predicate, no theorem): real sessions in which the application queues message objects a second time and clones of '
              'objects already sent - every submit_sm on the wire carries a sequence number of its own and a response is attributed '
              'only to the message whose request went out under its number.'),
        note=COMMON_NOTE + 'In the tier 2 part a whole _handle_response is one atomic step; the turn-level model covers the interleavings of correlator operations (suspension in the send_error hook), not the rest of the handler. That the number is assigned per request at send time (esme.py:380-385) is observed on the wire of real sessions, and modelled for the Sender in C06 (Model/SenderLoop.lean).',
        technique='Lean 4 theorems (induction over generator calls; case analysis of the handler over the store); differential correspondence through the real handler'),
    'C14': dict(
        text=('Proof (tier 2, atomic correlator operations, virtual clock). Props/C14.lean: every send_error(TimeoutError) of a '
              'sweep is produced by a stored request whose age strictly exceeds max_ttl_response (never early) and for an '
              'unsegmented request reports exactly that request; after any sweep every surviving request is within its ttl, '
              'put performs the sweep first and reports each overdue request still stored (by the next request, probes '
              'included); an overdue request does not survive the sweep and nothing re-inserts it (exactly once); get removes '
              'the request before it sweeps, so an answered request is not reported. Tied to correlator.py on a virtual clock '
              'with responses/probes at ttl-1, ttl, ttl+1 quanta, many outstanding requests, segments of one message stored at '
              'different instants and answered or not (each segment has its own time-to-live), and a second correlator operation '
              'while an expiry notification is suspended. HISTORY LEVEL (unsegmented requests, invariants by induction over '
              'arbitrary operation lists): nothing_reported_before_ttl - while no operation comes later than the time-to-live and '
              'the own response has not arrived, nothing at all is reported for the request, whatever else is stored or handled; '
              'unanswered_reported_exactly_once - it is reported exactly once as soon as any request is stored (probes included) '
              'or any response handled after the time-to-live, and never again. Session level (no theorem): the C01 session ledger checks on real sessions '
              'that an unanswered message is reported neither before its time-to-live nor later than the following keep-alive '
              'probes allow. That a probe is in fact sent every enquire_link_interval is C16 (session model). TURN LEVEL '
              '(Model/SweepTasks.lean: put/get as coroutines that give up control in the send_error hook of their sweep; other operations start '
              'and resume in between, each sweeping its own snapshot): exactly_once_under_interleaving - over EVERY schedule a request stored once '
              'leaves the store at most once, so it is never reported twice and never both reported and answered (counting invariant '
              'removals + live <= insertions + live-before, by induction over the schedule); interleaved_never_early; '
              'interleaved_nothing_passed_over (a sweep never skips an overdue request that is still stored). Tied to correlator.py by random '
              'schedules: every send_error call blocks until the schedule resumes its operation while other operations start; hook calls in order, '
              'matches and final stores equal the model (c.sched); plus predicate-only interleaved histories through the real handler.'),
        note=COMMON_NOTE + 'time.monotonic replaced by a virtual clock in quanta of 1/1024 s (floats exact). Tier 2 operations are atomic; the turn-level model has one suspension point per hook call of the sweep (the only await of put/get that can suspend); suspensions of the received hook or of the transport are session matters (C15, C01 ledger).',
        technique='Lean 4 theorems (induction over the key snapshot of the sweep, frame lemmas; counting invariant over arbitrary schedules of turns); differential correspondence on a virtual clock, schedules included'),
    'C01': dict(
        text=('Proof, PARTIAL (tier 2, atomic handlers), with two known findings. Props/C01.lean over the model of '
              'SimpleCorrelator + the correlation part of ESME._handle_response after repairs f3792e2, 4216ec2, 30f1721, '
              'dec7b5c, c8ff67e: an unsegmented submit that is answered by submit_sm_resp/generic_nack is handed over exactly '
              'then with its log_id/extra_data and is consumed; unanswered, it is reported by the first sweep after expiry; '
              'for segmented messages the aggregation law (still sending iff some segment is; failure dominates; expiry ranks '
              'above success) and the pre-registration of all segments are proved; the full statement is FALSE of the code on '
              'two history classes, each with a kernel-checked counter-example and a witness replayed on the real code every '
              'run: segment-reference-reuse (8-bit reference wraps while the earlier message is still in the status store: '
              'outcome attributed to the other log_id) and wrong-type-response-consumes-request. HISTORY LEVEL (Lemmas/History.lean, '
              'invariant by induction over arbitrary operation lists): plain_message_exactly_once - over any history of requests '
              'stored, responses handled (any type, status, order, duplicates, unknown numbers) and deliver_sm handled, at any '
              'times, in which an unsegmented submit_sm with log id L and number q is stored once and the rest of the traffic does '
              'not reuse q or L, the application sees at most one outcome carrying L, and exactly one once the response carrying q '
              'is handled or a request is stored / a response handled after the time-to-live (provided responses carrying q have the '
              'right type: the other case is the known finding); no_outcome_for_unknown_log_id - for all messages, segmented or '
              'not, a log id no stored request carries never appears in an outcome; segmented_message_exactly_once '
              '(Lemmas/SegHistory.lean, phase invariant open(k segments stored)/closed over woven histories) - for a message '
              'split into n segments whose requests are woven in order into any other traffic (other numbers, log ids and '
              'references), with responses to its segments in any order, accepted, rejected, nacked, wrong-typed, duplicated or '
              'missing, and any subset of its segments timing out in any sweep: at most one outcome carries its log id, and '
              'exactly one if at the end of the history none of its segment requests is outstanding in the correlator and '
              'every response that carried one of its numbers had a proper type. Hypotheses exclude exactly the two known '
              'findings (reference reuse, wrong-type response); delivery receipts interleaved with the responses of a segmented '
              'message are not part of these histories (C02). Not a theorem: that the outcome of a segmented message is a '
              'failure iff some segment failed is proved at the aggregation level (failure_dominates), not restated on histories. Session level (no theorem): the real ESME.start() on a '
              'virtual-time loop with a scripted SMSC (accept / reject / throttle / nack / silence / late), suspending hooks, back-pressure and '
              'dropped connections is judged by the ledger predicate (exactly one outcome per queued message, every response attributed, '
              'time-outs neither early nor late); it found the repaired defects 0eac14c, 829a54d, c79eab3 and two further known findings: '
              'response-overtakes-put and sender-cancelled-mid-message.'),
        note=COMMON_NOTE + 'Each correlator operation and each _handle_response run is atomic at this tier. log_id values are assumed distinct per message when judging attribution.',
        technique='Lean 4 theorems (history-level invariant by induction over operation lists for unsegmented messages, single-step refinement lemmas, max-aggregation law, kernel-checked counter-examples for the excluded classes); differential correspondence through the real handler with a ledger predicate'),
    'C02': dict(
        text=('Proof, PARTIAL (tier 2, atomic handlers). Props/C02.lean over the model of get_delivery / get_segmented / the receipt '
              'branch of ESME._handle_request: a receipt naming the id of an accepted unsegmented submit is handed over with '
              'that submit\'s log_id and extra_data; an unknown id gives empty log_id/extra_data (never another identity); a '
              'receipt without id is passed through untouched; for a segmented message a segment receipt yields the '
              'placeholder while any sibling has no receipt yet and, at the last one, exactly one receipt carrying the '
              'message\'s identity - the last failing one if any reported an error (receipt codes aggregate by maximum, every '
              'error code ranks below SENT). HISTORY LEVEL, unsegmented messages (Lemmas/RcptHistory.lean, invariants by induction '
              'over arbitrary operation lists): receipt_attributed_after_any_history - after any history in which the message was '
              'stored, accepted under an id while outstanding, and the id was since neither handed out again nor consumed nor '
              'outlived (delivery time-to-live), a receipt naming the id carries the message\'s log_id/extra_data, whatever other '
              'requests, responses, receipts and inbound messages were handled in between; unknown_receipt_after_any_history - '
              'after any history in which nothing was accepted under an id, a receipt naming it gets empty log_id/extra_data. '
              'SEGMENTED messages, ALL ORDERS (Lemmas/SegResponses.lean, Lemmas/SegReceipts.lean; invariants by induction over the '
              'arrival order): segmented_message_end_to_end - from the empty correlator the Sender stores the n segments of a message in '
              'turn, the n accepting responses arrive in ANY permutation and the n receipts in ANY permutation (nothing reaching a '
              'time-to-live meanwhile): no time-out is reported, the hook is handed n-1 placeholders and then exactly one response, n-1 '
              'placeholders and then exactly one receipt, both with the message\'s log_id and extra_data; the receipt is the last failing '
              'one in arrival order if any reports an error, otherwise the first (picked_is_last_failing / picked_is_first_when_none_fails); '
              'segmented_responses_any_order and segmented_receipts_any_order are the two phases from their own invariants. Not a theorem: '
              'other traffic interleaved between the segments\' PDUs, and receipts that overtake sibling responses - covered by the '
              'correspondence + attribution predicate on generated histories (receipts before sibling responses, TLV id, duplicates, '
              'unknown ids, restarts inside the history, ids differing in case / notation, tracking by extra_data alone). Session level (no theorem): real sessions with a scripted SMSC that accepts messages and sends receipts '
              '(prompt, delayed, with error codes, id in the TLV only, between sibling responses, unknown ids, duplicates) are judged by '
              'the attribution predicate. Reference reuse is the known finding recorded under C01.'),
        note=COMMON_NOTE + 'Atomic handlers; receipt text parsing is C20 and PDU decoding C03/C04; segmentation references assumed unique among live messages.',
        technique='Lean 4 theorems (single-step refinement lemmas, max-aggregation law, history invariants by induction, any-order theorems over permutations); differential correspondence through the real handlers with an attribution predicate'),
    'C03': dict(
        text=('Proof, PARTIAL. Props/C03.lean over the model of protocol.py pdu()/from_pdu()/parse_header and the TLV codec (after '
              'repairs 2a0ae40, b9c0e0e): command_length equals the number of octets produced for all fifteen classes and every '
              'field assignment for which pdu() returns; struct pack/unpack are inverse on the representable range at any '
              'offset; the header parses back; decode(pdu(m)) = m is a theorem for the five body-less classes (every sequence '
              'number, every status member), for submit_sm_resp/deliver_sm_resp (every ASCII id up to 64 characters), for the three bind '
              'requests (all fields SMPP allows) and the three bind responses (sc_interface_version absent or 0..255): 13 of 15 classes. '
              'For submit_sm/deliver_sm the round trip is a theorem for messages without optional parameters whose text travels in '
              'short_message, for every in-range assignment of the seventeen mandatory fields and every alphabet for which the codec '
              'and the SMPP time format round trip (sm_round_trip_short, those facts as explicit hypotheses; sm_round_trip_gsm with none '
              'left: default alphabet GSM 03.38, automatic encoding, any text over the alphabet up to 254 octets; sm_round_trip_gsm_payload: '
              'the same with the text in message_payload up to 65535 octets; time_facts_abs/rel discharge the time hypotheses from C17). '
              'WITH OPTIONAL PARAMETERS (Lemmas/TlvRound.lean): sm_round_trip_params / sm_round_trip_payload_params / sm_round_trip_gsm_params / '
              'sm_round_trip_gsm_payload_params - any list of parameters SMPP 3.4 allows (two-octet tag other than message_payload, value of '
              'the tag\'s type and width from the regenerated table) comes back in the order given, normalised as documented (an unset flag is '
              'absent, a bool held for an integer parameter reads back 0/1; SAR parameters are withheld under UDHI), text in short_message or in '
              'message_payload - induction through the TLV loop of from_pdu. Serialising the same object again gives the same bytes '
              '(C04 resend_same_bytes). UCS2 text has no codec hypothesis left either: sm_round_trip_ucs2_fallback / _fallback_payload (default alphabet GSM, '
              'automatic encoding, any text of Unicode scalar values outside the alphabet: written as UTF-16-BE with data_coding 8, read back as the '
              'text with encoding ucs2) and sm_round_trip_ucs2_default (UCS2 as the configured default, data_coding 0); the UTF-16-BE round trip on '
              'scalar values, astral characters as surrogate pairs, is a lemma (Lemmas/Split.lean). NOT theorems: a UDH inside the text, the ascii / '
              'latin_1 / packed codecs (explicit codec facts as hypotheses); '
              'these are decided by the octet-for-octet correspondence of the model encoder and decoder with the code plus the round-trip '
              'predicate on generated messages (all alphabets, boundary lengths 0/254/255, TLVs of every value type, both time forms, payload, '
              'second serialisation of the same object, automatic encoding must fall back to UCS2).'),
        note=COMMON_NOTE + 'CPython codecs other than gsm0338/gsm0338_packed/ucs2/ascii/latin_1 and registered error handlers are opaque (not judged). Text outside the chosen alphabet under a lossy error mode, and an explicit gsm0338 encoding differing from the configured default, are outside the round-trip domain (see DESIGN.md).',
        technique='Lean 4 theorems (length bookkeeping over all constructors, pack/unpack inverse by radix lemmas, induction through the TLV loop); differential correspondence octet for octet + round-trip predicate'),
    'C04': dict(
        text=('Proof, PARTIAL, one known finding. Props/C04.lean against Spec/Smpp34.lean (SMPP 3.4 transcribed without reference '
              'to the code): all 65,536 TLV tags have the value type and width of 5.3.2; command ids and data_coding values; '
              'header layout; body-less PDUs and submit_sm_resp/deliver_sm_resp are exactly the reference PDU; the body of '
              'submit_sm/deliver_sm lays out the seventeen mandatory fields in the order, widths and C-octet termination of '
              '4.4.1/4.6.1 for every in-range assignment; integer TLVs are tag/length/value big-endian; decoding direction: a body '
              'laid out as the specification prescribes - by whomever - is decoded to the field values it was built from, text in '
              'short_message or in a message_payload parameter (decode_mandatory_fields, decode_message_payload), followed by ANY '
              'list of optional parameters laid out as tag/length/value - integers of width 1, 2, 4, ASCII strings with or without '
              'NUL, flags, any tag but message_payload, any order and number - which are read back in order with the value type of '
              'the regenerated tag table (decode_optional_params: induction over the parameter list through the TLV loop); resend_same_bytes - pdu() '
              'changes the object it serialises (encoding chosen, _encoded_message kept or cleared), and a second call on the same object returns '
              'the same bytes for every message of every class (model pduAgain, op pdu.enc2). NOT theorems '
              '(decided by correspondence + an independent Python encoder): bind bodies against the reference, the encoder side of '
              'string TLVs, choice of data_coding and text octets, omitted response bodies, sc_interface_version, UDH 8/16-bit. Known finding udh-other-ie-first (a UDH whose '
              'first element is not the concatenation element is misread; kernel-checked on the model, replayed on the code).'),
        note=COMMON_NOTE + 'Two hand transcriptions of SMPP 3.4 (Spec/Smpp34.lean, tools/spec/smpp.py) and of 3GPP TS 23.038 are the reference; an error common to both and to the code would go unseen.',
        technique='Lean 4 theorems (decide +kernel over whole tables via run-length structure, list-of-fields equality); differential correspondence + independent encoder in both directions'),
    'C12': dict(
        text=('Proof. Props/C12.lean over an interpreter model of jsonutils._json_default / dict_to_smpp_message and the from_json '
              'class methods whose data is REGENERATED FROM THE SOURCE on every run (tools/extract.py gen_shape -> Gen/Shape.lean: the '
              'dataclass fields, declared types and defaults of the fifteen classes; the argument expressions of each from_json read '
              'from its AST; the type key written and read; MESSAGE_TYPE_MAP). Main theorem json_round_trip: for every class and every '
              'assignment of admissible values (any strings, any ints, every enum member, aware/naive datetimes, timedeltas with '
              'fractional seconds, any list of optional parameters) fromJson(toJson m) = m, all public attributes in order; the '
              'encoded form names the type; isoformat/fromisoformat and timedelta<->float round trips proved for their models. The '
              'only unrestored fields are command_status of the three bind requests (theorem unrestored_fields; null in requests). '
              'Tied to the code additionally by correspondence through the real json_encode/json_decode (tree and object compared) '
              'and a malformed stream for dict_to_smpp_message.'),
        note=COMMON_NOTE + 'json.dumps/json.loads are outside the model (tree level). isoformat/fromisoformat and float exactness of total_seconds()/timedelta(seconds=) are modelled and swept, not verified; tzinfo reduced to a whole-second utcoffset. The extractor recognises five argument patterns; any other expression becomes Conv.unknown and breaks shape_ok (then the check searches for a failing message).',
        technique='Lean 4 theorems over a model regenerated from the source (kernel-evaluated shape obligations + generic round-trip proof by induction over the field list); differential correspondence'),
    'C19': dict(
        text=('Proof (file-system and dictionary level) + correspondence and crash injection on the real code. Props/C19.lean over a '
              'model of PersistingDict on an abstract file system (after repairs fc383ea, 090b314, a97f9c4, 36addf8): a crash after '
              'any prefix of the system calls of _save, including any partial write, leaves the store file with its old or its '
              'complete new content and touches no other file; hence a crash during any dictionary operation leaves a file that '
              'loads as the dictionary before or after it; after any history of assignments, deletions and pops a new instance '
              'loads exactly what the old one held; an assignment re-synchronises whatever was changed in place; the five store '
              'files and their temporaries are pairwise distinct paths for every directory and name. The serialisation round trip '
              'is a hypothesis discharged by C12 for messages. Kernel-checked counter-examples document the repaired defects. '
              'Tied to correlator.py by the traced system calls of the real _save, by reloading a new SimpleCorrelator after every '
              'operation of generated histories (segmented messages, rejected segments, receipts, sweeps) and by restarting runs '
              'at random points (same outputs, log_id/extra_data of receipts included), and by crashes injected at every traced '
              'system call and at partial writes. NOT a theorem: that every correlator operation assigns back each entry it changes '
              'in place (checked by the reload comparison on generated histories).'),
        note=COMMON_NOTE + 'File-system abstraction: os.replace atomic, a crash loses at most a suffix of what was written to the open file; process crash, not power loss (no fsync ordering). time.monotonic assumed to keep running across the restart.',
        technique='Lean 4 theorems (case analysis over crash prefixes, induction over operation histories); traced-syscall correspondence; restart equivalence and crash injection on the real code'),
    'C16': dict(
        text=('Proof (tier 3, keeper as a timed function). Props/C16.lean over the model of ESME._connection_keeper as a function '
              'from its (re)start time and the arrival times of inbound PDUs to the times enquire_link is sent and the time it gives '
              'up, for arbitrary interval I and time-out T: an enquire_link goes out exactly I after a (re)start when nothing arrived '
              'in between (probe_on_idle) and only then (no_probe_while_busy, probes_at_restarts); silence for I+T ends the keeper '
              'exactly then (dead_peer_dropped); a peer whose PDUs - answers or any other traffic - arrive less than I+T apart is '
              'never dropped (live_peer_kept, induction over the arrival list). Tied to esme.py by real sessions on a virtual-time '
              'event loop against a scripted SMSC (answer delays below/above T/never, unsolicited traffic random, periodic just '
              'below/above I, bursts): every keeper run is compared with the model fed with the observed arrival times, and judged by '
              'an independent interval predicate. Exact ties of a timer and an arrival in one loop iteration are outside the '
              'theorems and the comparison (generated, judged by the predicate: a live peer is not dropped). That the supervisor '
              'reconnects after the keeper returns belongs to C07.'),
        note=COMMON_NOTE + 'asyncio (sleep/wait/wait_for/Event) and the virtual-time loop of tools/sim/simlib.py are trusted; the model abstracts the keeper to arrival times.',
        technique='Lean 4 theorems (induction over arrival lists, omega); differential correspondence on a virtual-time event loop with a scripted peer'),
    'C07': dict(
        text=('Proof (tier 3, supervisor as a function of a fault script). Props/C07.lean over the model of ESME.start()/connect()/stop() '
              '(after repair f1bdb3b) and of SimpleExponentialBackoff: for every fault script of any length (connect refused / hanging, '
              'bind rejected / unanswered / garbled, sessions ended by the peer) start() without stop() goes through every cycle and '
              'never returns (runs_until_stopped); when it returns stop() had been called (returns_only_after_stop); consecutive '
              'failures are spaced by the failed step plus the back-off delays 0, min, 2 min, ..., capped at min*2^m '
              '(failures_backoff + backoff_sequence), and a successful bind makes the sequence start over whatever preceded it '
              '(bind_resets_backoff); after stop() at any moment start() returns within B = max(socket_timeout + grace, back-off cap, '
              'wind-down of the bound session) (stop_bounded, induction over the script with the back-off invariant). Tied to esme.py '
              'by sessions on a virtual-time loop against a scripted SMSC: observed connect / bound / unbind / return times equal the '
              'model in all three bind modes, for several back-off parameters, stop() at random moments. Decided by predicates on the '
              'observed runs only, not by theorems: session state CLOSED, every connection closed, unbind on the wire when bound, '
              'no exception from start(); the wind-down latency of a bound session whose peer neither answers nor closes is '
              'observed (bounded by enquire_link_interval + 1 s), not derived.'),
        note=COMMON_NOTE + 'asyncio and the virtual-time loop are trusted; a cycle is summarised by its duration and the 0.5 s task grace; same-instant orderings of stop() and other events are excluded by sub-millisecond offsets.',
        technique='Lean 4 theorems (induction over fault scripts with a back-off invariant, omega); differential correspondence on a virtual-time event loop with a scripted peer; shutdown predicates'),
    'C05': dict(
        text=('Proof. Props/C05.lean: (1) decoder_classes / body_classes - for EVERY byte string and default alphabet the decoder model '
              '(from_pdu of all classes, TLV loop, UDH walk, text codecs, SMPP time strings, receipt text) raises only ValueError, '
              'UnicodeError, LookupError (KeyError, IndexError) or struct.error; compositional proof over the whole decoder, including '
              'that the timedelta of a relative time can never overflow (two-character fields). (2) handlers_cover - every such class '
              'is an instance of a class named in the except clauses of _handle_request/_handle_response, which are REGENERATED from '
              'esme.py together with the class hierarchy of the running interpreter (Gen/Catch.lean). Hence request_answered_once: a '
              'PDU with a recognised header whose command is a request gets exactly one response echoing its sequence number (the '
              'matching response, or generic_nack with a non-zero status); response_ignored; escape_only_unusable_header: the only '
              'exception that leaves the receive loop is the ValueError of an unknown command id / status, which _end_task tolerates '
              'and start() answers with a reconnect. Tied to esme.py by feeding the malformed streams (all command ids, corruptions of '
              'every field, receipts, UDHI, undecodable text per data coding, TLV length perturbations, foreign shapes, random bodies) to a '
              'real bound session on the virtual-time loop: what is written and whether the link stays up equals the model; predicate: one '
              'response per request, none per response, start() never ends, a following enquire_link is answered. STREAM LEVEL '
              '(Model/ReceiveLoop.lean: _get_pdu in a loop - 16 octets, header, command_length-16 more octets): stream_handled_pdu_by_pdu - a '
              'stream of PDUs with recognised headers followed by an incomplete remainder is handled PDU by PDU, in order, whatever the '
              'bodies are, and the loop is still running afterwards ("valid PDUs that follow are processed normally"); tied by streams of '
              'mixed PDUs delivered in pieces of arbitrary size (op rxs: responses in order, link dropped or not). Inbound PDUs also meet a '
              'correlator that holds state (segmented messages accepted, then receipts incl. malformed ones for known ids). Mis-framed streams '
              '(truncation at every offset, length field larger/smaller, garbage) are judged by the predicate only.'),
        note=COMMON_NOTE + 'RuntimeError is the model stand-in for text codecs it does not describe (excluded by hypothesis; those PDUs go to the real session and are judged by the predicate). Hooks and transport writes are assumed not to fail here. The decoder model is the one tied to protocol.py by the C03/C04/C20 correspondences.',
        technique='Lean 4 theorems (compositional exception-class analysis of the decoder, kernel-checked coverage of the regenerated catch matrix); differential correspondence through a real session on a virtual-time loop'),
    'C06': dict(
        text=('Proof. Props/C06.lean over the model of one _dequeue_messages iteration (segmentation decision of esme.py 445-490, '
              'clone with SAR parameters, pdu() of each message): failure_classes - for EVERY SubmitSm whose optional parameters the '
              'OptionalParam constructor accepts, every default alphabet and reference number, whatever fails is a ValueError, '
              'UnicodeError, LookupError or struct.error (compositional proof over encoder, text codecs, time strings, TLVs, splitters and '
              'cloning; the SAR parameters the sender adds are acceptable ones); continues_after - each of these is an instance of a '
              'class in the isinstance tuple of esme.py after which the loop goes on, REGENERATED from the source (Gen/Catch); hence '
              'sender_survives. Tied to esme.py by queueing constructible messages (C03 field space with values the wire does not '
              'allow, every text length class in GSM/UCS2/mixed/astral, auto_message_payload on/off, UDHI on/off, explicit and unknown '
              'encodings, error_handling values) to a real bound session on the virtual-time loop: the PDUs written (octet for octet, '
              'all segments) or the error class handed to send_error equal the model. QUEUE LEVEL (Model/SenderLoop.lean: the loop over the '
              'whole queue with the sequence-number and reference generators threaded through; a number is drawn before pdu() is built): '
              'queue_in_order / queue_never_stops / wire_in_queue_order - for every queue of constructible messages and every generator state '
              'there is exactly one result per message, in queue order, none ends the task, and the wire is the concatenation of the '
              'per-message PDUs in that order; tied by whole queues handed to the broker at once (op txq). Observed, not proved: that the hook '
              'calls made are these results (send_error exactly once and with the failing message itself - each queued message carries a '
              'log_id of its own), start() keeps running. Encoding names of the Python codec registry that are not text encodings are in the '
              'generator (genuine defect repaired in d253e77).'),
        note=COMMON_NOTE + 'RuntimeError is the model stand-in for text codecs it does not describe (excluded by hypothesis; such messages go to the real session and are judged by the predicate). Hooks, rate limiter and transport writes are assumed not to fail here.',
        technique='Lean 4 theorems (compositional exception-class analysis of the encoder and the sender iteration, kernel-checked coverage of the regenerated isinstance tuple); differential correspondence through a real session on a virtual-time loop'),
    'C15': dict(
        text=('Proof (monitor + interleaving theorem) and trace conformance. Props/C15.lean over a monitor of the observable events of a '
              'session (sending-hook calls with their bytes, every writer.write call, PDUs delivered by the peer, received-hook calls and '
              'returns, successful binds): a run the monitor accepts has, on every connection, a written stream that an independent '
              'framer splits into exactly the PDUs of the write calls (wire_is_whole_pdus, framing), every write carrying the very bytes '
              'announced to the sending hook before (writes_were_announced); and EVERY interleaving of any number of concurrent '
              '_send_data invocations, each suspended in its hook for any time, is accepted (all_interleavings_accepted, induction over '
              'the schedule with a pending-announcement invariant). The other clauses - bind request of the configured mode first and '
              'alone until the bind succeeded, responses echoing sequence number and command of a request read on that connection, '
              'deliver_sm_resp only after the received hook returned, received hook at most once per delivered PDU, a receiver never '
              'writes submit_sm - are rules of the monitor, checked on the traces, not consequences of a model of the tasks. Tied to '
              'esme.py by real sessions on the virtual-time loop (hooks suspending for random times, bursts of plain and segmented '
              'messages, inbound deliver_sm / enquire_link / unsupported / unparsable PDUs, drops, rejected binds, stop() at random '
              'moments, all three modes): each whole event trace must be accepted; independent predicates re-check framing, '
              'announcement, first PDU, receiver mode, state per mode and that start() ends without exception (after repair 0eac14c).'),
        note=COMMON_NOTE + 'The abstraction of _send_data in the interleaving theorem (hook call; on return one write of the same bytes in the same turn) is read off esme.py 393-397 by hand and tied by the trace conformance only. PDUs in flight are assumed pairwise distinct (sequence numbers).',
        technique='Lean 4 theorems (monitor soundness, framer correctness, induction over schedules); trace conformance of real sessions on a virtual-time event loop'),
}

# what the correspondence generators gained after the seeded rounds 6 and 7 (appended to the claim text by mkmanifest)
ADDENDA = {
    'C03': ' Round 8: custom codecs registered under every data_coding member name (the mixed-case ones included); texts filling message_payload up to 65535 octets. Round 9: the round trip through the real Sender under every default alphabet (latin_1, ascii, ucs2, gsm0338, gsm0338_packed), auto_message_payload on and off.',
    'C05': ' Round 8: days pass inside the stateful batches (entries of the delivery stores outlive their time-to-live and are swept by the next inbound PDU); log.py / hook.py at every level. Round 9: receipt date fields of every length; an application whose sending hook keeps a window of one outstanding message while the SMSC sends requests.',
    'C07': ' Regenerated obligation start_cycle_step_order (connect, reset, the three tasks, their end, close, back-off delay). Round 8: the simulators rotate the log level (TRACE .. CRITICAL, records discarded) and the application hook extends the library SimpleHook, so log.py and hook.py run as deployed; runs with application traffic (plain, unbuildable, segmented messages queued at any time, all bind modes) judged by the predicates. Theorem connections_closed (Model/Supervisor.lean conns, driver op supc): every connection that is established is closed, one at a time, each before the next is opened and before start() returns; the observed open / close times of the traffic-free runs are compared with the model\'s. Round 9: a peer that stops reading and answering while the Sender is suspended in drain() on a backlog (dead_peer_case); regenerated obligation keeper_step_order.',
    'C01': ' Session ledger additions: UDH-segmented messages; messages queued while the session is winding down after a drop; a message '
           'no Sender task reported is the known cancelled-sender finding only if the task holding it was cancelled, not if it ended of '
           'its own accord. Regenerated obligation handle_response_step_order. Round 8: sessions with a correlator that persists to files and texts with lone surrogates / astral characters sent with error_handling=replace. Round 9: every submit_sm of a message with a text outside the GSM alphabet is read on the wire (UCS2, also when the same object is sent again after a failed transmission); stray responses to submit_sm whose transmission had failed. The await points of _send_data are regenerated from the source (theorem send_data_await_points); directed sessions in which a response is processed while the put of its own request is suspended (plain and segmented).',
    'C02': ' Regenerated obligations: handle_request_step_order, get_delivery_step_order (Gen/Site.lean). Round 8: (no addition; the jsonutils and stale-status changes are caught by the restart histories and the reference-reuse cases). Round 9: registered_delivery varied over every receipt-requesting value; regenerated obligation response_handler_awaits_directly. The await points of put_delivery / get_delivery are regenerated from the source (theorem delivery_operations_await_only_the_sweep).',
    'C04': ' Foreign PDUs also carry absolute validity periods with every quarter-hour offset of both signs and relative schedule times; '
           'PDUs are decoded after PDUs the library refuses (decoder keeps no state). Round 8: the wire of the real Sender for messages it segments, with the 0..255 reference generator standing at 253..255 and 0 (session_segments_case of C08). Round 9: large PDUs (17 .. 70 KB) under back-pressure judged by the C15 monitor.',
    'C06': ' Whole queues also run with a sequence generator that passes the largest SMPP sequence number in the middle of the queue. Regenerated obligation sender_loop_step_order (Gen/Site dequeueLoop: loop nesting and order of the Sender loop). Round 8: (log.py runs at every level, see C07).',
    'C08': ' Session level: the PDUs the real Sender writes for messages with options and application parameters are read by an independent '
           'receiver (SAR / UDH, esm_class variants with bits 7-6 set), each after every kind of previous message handled by the same Sender task. Round 8: every third text has been through the GSM, packed and UCS2 codecs before it is split; references around the 8-bit wrap. Round 9: what the application does while a message is being segmented: a sending hook that takes 1.2 s per PDU with relative schedule / validity times on the message, a hook that re-targets the message object after the first PDU; regenerated obligation segments_cloned_before_sending (nested function definitions are marked in the fingerprints).',
    'C09': ' Histories with one source address per message (colliding concatenations), pauses up to the delivery time-to-live between segments. Regenerated obligation handle_request_step_order. Round 8: long messages trickling in: every gap inside the delivery time-to-live, the whole far beyond it. Round 9: regenerated obligation request_handler_awaits_directly (no time-out / task / shield around reassembly). The reassembly step of put_delivery_segmented is atomic: its await points are regenerated from the source (theorem reassembly_step_is_atomic).',
    'C10': ' History cases: the same text through the packed codec in between, one representative of every Unicode category, decoder history. Round 8: the other users of the codec tables (detect_format, the splitters, SubmitSm.smpp_encode) run between the codec cases; texts of 1025 .. 70000 characters with one outsider of each kind. Round 9: the UCS2 fall-back on the wire for messages sent again after a failed transmission (session ledger, wire check).',
    'C11': ' History cases: repeated texts, decoder input ending in the escape code followed by another input. Round 9: the packed codec through the real Sender on texts of 2100 .. 4500 characters with extension characters early on.',
    'C12': ' Objects are serialised again after the library changed them, the same JSON text is decoded twice with the first result changed in '
           'between, time fields use the library\'s own tzinfo class. Round 9: the same object serialised again after exactly ONE field changed (sequence number, log_id, extra_data, status, encoding, a parameter).',
    'C13': ' Exceptions raised by a correlator operation under an interleaving are observations (the check goes on to name the schedule). Regenerated obligation handle_response_step_order. Round 9: regenerated obligation send_data_step_order (request stored only after the drain); stray responses after failed transmissions.',
    'C14': ' The by-the-next-request clause counts the bind request of a reconnect; exceptions raised under an interleaving are observations. Round 8: error responses without a body (SMPP 3.4 4.4.2) from the scripted SMSCs; a request answered at once is never reported as timed out. Round 9: a response that arrives within the time-to-live must be matched under every schedule; sweeps cancelled during a notification (every overdue request still reported exactly once). The turn-level model has a cancel event (a suspended operation takes no more turns): theorem cancellation_loses_nothing, and the theorems over schedules quantify over cancellations too; the random schedules of the correspondence cancel suspended puts. The turn-level sweep gives up control only where it awaits the hook (theorems control_given_up_only_at_hook, operation_suspended_only_in_hook: a put that is not suspended in a hook call has stored its request): probes and open segments are swept out silently within the turn, and the schedules of the correspondence also start from stores that hold probes and segments; the await points of expired and _remove_expired are regenerated from the source on every run (theorems sweep_awaits_only_the_hook, operations_await_only_the_sweep).',
    'C15': ' Inbound traffic includes delivery receipts of every shape (without dates, dates with seconds, words for numbers, unknown fields), '
           'peer unbind followed by enqueues. Round 8: inbound deliver_sm with schedule / validity strings of every shape; submit_sm PDUs of 33, 40 and 70 KB under back-pressure. Theorem receiver_reactions_accepted: the reactions of the Receiver model (C05) to ANY inbound PDUs are accepted by the monitor. Round 9: every request of an undisturbed bound session is answered; inbound PDUs beyond 64 KiB; a received hook that hangs while the session is given up (no deliver_sm_resp before the hook returned).',
    'C16': ' Sessions with application submits and a peer that stops reading; arrival times are taken where the PDU is read. Regenerated obligation keeper_step_order (the probe is a task of its own). Round 8: sessions whose sequence generator is about to wrap (the probes draw from it).',
    'C17': ' Datetimes of both seasons through ONE rule-based tzinfo object per zone (its offset depends on the date). Round 9: relative times on the segments of a message whose Sender waits between segments.',
    'C18': ' An exception out of limit() is an observation judged by the predicate. Regenerated obligation gate_step_order (throttle handler and limiter consulted inside the loop over the PDUs of a message).',
    'C19': ' Reboot cases: the new process\'s monotonic clock starts over, far below the stamps in the files; the correlations must still be found. Regenerated obligation in_place_changes_assigned_back (Gen/AssignBack.lean: a static analysis of SimpleCorrelator finds every in-place change of an object taken from a persisted store and checks that an assignment back to the store follows that is not nested deeper than the change). Round 8: a restart after the scheduled / validity time of a stored message has passed (real time, 1.3 s). Round 9: texts with lone surrogates in stored messages; an operation that raises is a failure; the files as they are while a send_error hook is suspended (crash at that moment).',
    'C20': ' The same DeliverSm is parsed a second time (as the library itself does) and must give the same dictionary. Round 8: a second DeliverSm with the same text and another receipted_message_id parameter; receipts read by the hook after the ESME parsed, logged and correlated them (every log level). Round 9: ids from nowhere; the receipt handed over for a segmented message parses to what its own text says.',
}
