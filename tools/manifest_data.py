"""Claims per property (source of MANIFEST.json; run tools/mkmanifest.py after editing)."""
HOOK_COMMITS = []
NOTES = ('Every check: regenerate Gen/*.lean from /repo, lake build the property theorems, audit axioms and '
         'sources, run the model driver and the real code on the same inputs, evaluate the property predicate '
         'on the real outputs. Exit 2 = machinery error/time-out (never a verdict).')
NOT_APPLICABLE = {}
COMMON_NOTE = ('Trusted: Lean kernel; axioms propext/Quot.sound/Classical.choice only; tools/extract.py; the '
               'correspondence harness and its generators (coverage printed in the evidence); CPython itself. ')
CHECKS = {
    'C10': dict(
        text=('Proof. Theorems in lean/SmppVerif/Props/C10.lean over the executable model of GSM7BitCodec with the '
              'tables regenerated from the running module: tables = 3GPP TS 23.038 (whole table), per-character cost '
              'and escape-first, round trip decode(encode t) = t for every string over the alphabet in every decoder '
              'mode, strict rejection iff outside the alphabet, ignore = filter, replace = exactly one plain septet, '
              'append homomorphism and decode_prefix (neighbours unaffected), high octets / unknown escape / trailing '
              'escape behaviour. Model tied to codec.py by exhaustive single-code-point, octet-pair and '
              'alphabet-pair sweeps plus random strings.'),
        note=COMMON_NOTE + 'Hand transcription of the 3GPP table (Spec/Gsm0338.lean, tools/spec/gsm.py). Not modelled: TypeError for non-str input, exception arguments.',
        technique='Lean 4 theorems (induction on the text + decide +kernel over whole tables) on a model with regenerated tables; differential correspondence'),
}
