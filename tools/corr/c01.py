"""C01 — exactly one, correctly attributed send outcome: tier 2 correspondence through the real
ESME._handle_response + SimpleCorrelator and the ledger predicate."""
from vlib import Case
from corr.corrlib import CorrSim, Q

ID = 'C01'
TARGETS = ['SmppVerif.Props.C01']
THOROUGH_ROUNDS = 6
RULE = ('histories of plain and segmented (2..5 segments) submits: per-segment SMSC reaction in {accept, reject with '
        'status, generic_nack, silence}, responses at random positions after the segment was stored (including before the '
        'next segment is stored), duplicates, responses of the wrong type, expiry sweeps, references unique or deliberately '
        'reused while the earlier message is still live; one model line per operation plus store dumps. '
        'distinct-nontrivial = distinct (message shape multiset, reaction classes, response-before-next-segment?, '
        'reference reuse?, wrong-type?, outcome classes)')
TRUSTED = ['Lean 4.33.0 kernel', 'axioms: propext, Quot.sound, Classical.choice',
           'tools/corr/corrlib.py (recording hook, virtual clock); atomic-handler view of tier 2']
ASSUMPTIONS = ['each correlator operation and each _handle_response run is atomic; interleavings of the sending task with '
               'the receiver (hooks suspending inside put, connection loss mid-send) belong to the session model',
               'log_id values are distinct per message in the generated histories (attribution is judged by them)']
EXHAUSTIVE = {'quick': False, 'thorough': False}
TTL = 15 * Q


def history(rng, label, msgs, reuse=False, wrongtype=False, dup=False, jumps=False):
    """msgs: list of dict(log, nseg, ref, reactions[list per segment])"""
    sim = CorrSim(ttl_resp_q=TTL, ttl_deliv_q=100000 * Q)
    cases = [Case(sim.first_line, 'ok', None)]
    fail = None
    try:
        # ---- build the operation list ---------------------------------------------------------
        seqno = 0
        ops = []                    # ('put', msg index, seg index, seq) / ('resp', seq, kind, status, msgidx, segidx)
        segseq = {}
        for mi, m in enumerate(msgs):
            pending = []
            for si in range(m['nseg']):
                seqno += 1
                segseq[(mi, si)] = seqno
                ops.append(('put', mi, si, seqno))
                re = m['reactions'][si]
                if re != 'silence':
                    pending.append((seqno, re, mi, si))
                # a response may come before the next segment is stored
                rng.shuffle(pending)
                while pending and rng.random() < 0.4:
                    sq, re2, a, b = pending.pop()
                    ops.append(('resp', sq, re2, a, b))
            m['_pending'] = pending
        late = [p for m in msgs for p in m.pop('_pending')]
        rng.shuffle(late)
        for (sq, re2, a, b) in late:
            ops.append(('resp', sq, re2, a, b))
        if dup and late:
            ops.append(('resp',) + late[0])
        if wrongtype:
            # an enquire_link_resp carrying the number of a live segment, before its real response
            for i, o in enumerate(ops):
                if o[0] == 'resp':
                    ops.insert(i, ('wrong', o[1]))
                    break
        early_resp = any(ops[i][0] == 'resp' and any(o[0] == 'put' and o[1] == ops[i][3] for o in ops[i + 1:])
                         for i in range(len(ops)))
        # ---- run -----------------------------------------------------------------------------
        late = set()
        t = 100
        outcomes = {}               # log -> list of (op index, 'ok' | 'fail')
        answered_at = {}            # (mi, si) -> op index
        put_time = {}               # (mi, si) -> time stored
        op_time = []
        for oi, o in enumerate(ops):
            t += rng.choice((1, 1, 1, 1, 5, TTL // 2, TTL + 1)) if jumps else 1
            op_time.append(t)
            if o[0] == 'put':
                _, mi, si, sq = o
                m = msgs[mi]
                sar = (m['ref'], si + 1, m['nseg']) if m['nseg'] > 1 else None
                ln, out = sim.op_put(t, sim.submit(sq, m['log'], 1000 + m['log'], sar=sar))
                put_time[(mi, si)] = t
            elif o[0] == 'wrong':
                ln, out, _ = sim.op_hresp(t, sim.resp('enqresp', o[1], 0))
            else:
                _, sq, re, mi, si = o
                if re == 'accept':
                    r = sim.resp('submitresp', sq, 0, 'id%d' % sq)
                elif re == 'nack':
                    r = sim.resp('nack', sq, 3)
                else:
                    r = sim.resp('submitresp', sq, int(re), '')
                ln, out, _ = sim.op_hresp(t, r)
                if ' N ' in out + ' ' or ' T ' in out + ' ':
                    answered_at.setdefault((mi, si), oi)         # it did reach its request
                elif (mi, si) not in answered_at:
                    late.add((mi, si))                            # the request had expired before
            cases.append(Case(ln, out, None))
            collect(out, oi, outcomes)
        # expiry of everything unanswered: two sweeps far in the future
        for k in (1, 2):
            t += 2 * TTL
            seqno += 1
            ln, out = sim.op_put(t, sim.request('enq', 50000 + k))
            cases.append(Case(ln, out, None))
            collect(out, len(ops) + k, outcomes)
        ln, out = sim.op_dump()
        # ---- ledger predicate -----------------------------------------------------------------------
        known = {m['log'] for m in msgs}
        for lg in outcomes:
            if lg not in known and fail is None:
                fail = 'an outcome carries log_id L%d which no submitted message has' % lg
        for mi, m in enumerate(msgs):
            got = outcomes.get(m['log'], [])
            bad = any(r != 'accept' or (mi, si) in late for si, r in enumerate(m['reactions']))
            if fail is not None:
                break
            if len(got) != 1:
                fail = 'message L%d (%d segments, reactions %s): %d outcomes %s' % (
                    m['log'], m['nseg'], m['reactions'], len(got), got[:4])
            elif (got[0][1] == 'fail') != bad:
                fail = 'message L%d (reactions %s) reported as %s' % (m['log'], m['reactions'], got[0][1])
            else:
                lasts = [answered_at[(mi, si)] for si in range(m['nseg']) if (mi, si) in answered_at]
                if len(lasts) == m['nseg'] and got[0][0] < max(lasts):
                    fail = 'message L%d reported at op %d before its last segment was answered (op %d)' % (
                        m['log'], got[0][0], max(lasts))
        shapes = tuple(sorted((m['nseg'], tuple(sorted(set('acc' if r == 'accept' else ('sil' if r == 'silence' else
                                                                ('nack' if r == 'nack' else 'rej'))
                                                               for r in m['reactions'])))) for m in msgs))[:3]
        sig = (label, shapes, early_resp, reuse, wrongtype, dup, jumps, bool(late), fail is None)
        cases.append(Case(ln, out, sig, fail,
                          {'op': 'history', 'label': label, 'reuse': reuse, 'wrongtype': wrongtype, 'jumps': jumps,
                           'msgs': [{k: v for k, v in m.items()} for m in msgs],
                           'lines': [c.line for c in cases[1:]]}))
    finally:
        sim.close()
    return cases


def collect(out, oi, outcomes):
    for ev in out.split(' ')[1:]:
        if ev.startswith('E=submit:'):
            f = ev[2:].split(':')
            outcomes.setdefault(int(f[3]), []).append((oi, 'fail'))
    if ' H=msg ' in out:
        f = out.split(' H=msg ')[1].split(':')
        lg = int(f[3])
        if lg:
            ok = f[0] == 'submitresp' and f[2] == '0'
            outcomes.setdefault(lg, []).append((oi, 'ok' if ok else 'fail'))


REACTIONS = ['accept', 'accept', 'accept', '8', '88', 'nack', 'silence']


def rand_msgs(rng, n, refs_unique=True):
    msgs = []
    used = set()
    for i in range(n):
        nseg = rng.choice((1, 1, 2, 3, 5))
        while True:
            ref = rng.randrange(0, 256)
            if ref not in used:
                break
        used.add(ref)
        p_bad = rng.choice((0.0, 0.0, 0.3, 1.0))
        reactions = [rng.choice(REACTIONS[3:]) if rng.random() < p_bad else 'accept' for _ in range(nseg)]
        msgs.append(dict(log=10 + i, nseg=nseg, ref=ref, reactions=reactions))
    return msgs


def generate(rng, tier):
    thorough = tier == 'thorough'
    for _ in range(1500 if thorough else 400):
        yield from history(rng, 'mix', rand_msgs(rng, rng.randrange(1, 6)), dup=rng.random() < 0.2)
    # the clock jumps between operations: requests expire in the middle of the history, inside the
    # sweep of whichever operation comes next (a response to a sibling segment included)
    for _ in range(1500 if thorough else 400):
        yield from history(rng, 'jumps', rand_msgs(rng, rng.randrange(1, 4)), jumps=True)
    # directed: every reaction at every position of 2- and 3-segment messages
    for nseg in (2, 3):
        for pos in range(nseg):
            for re in ('8', 'nack', 'silence'):
                reactions = ['accept'] * nseg
                reactions[pos] = re
                for _ in range(3):
                    yield from history(rng, 'directed', [dict(log=77, nseg=nseg, ref=5, reactions=list(reactions))])
    # reference reuse while the earlier message is still live (the 8-bit reference wrapped)
    for _ in range(40 if thorough else 12):
        a = dict(log=31, nseg=2, ref=9, reactions=['accept', 'accept'])
        b = dict(log=32, nseg=rng.choice((2, 3)), ref=9, reactions=['accept'] * 3)
        b['reactions'] = b['reactions'][:b['nseg']]
        yield from history(rng, 'reuse', [a, b], reuse=True)
    # wrong-type response consuming a live request
    for _ in range(40 if thorough else 12):
        yield from history(rng, 'wrongtype', rand_msgs(rng, 2), wrongtype=True)
    # one outcome also when correlator operations interleave: while the time-out notification of one overdue request is
    # suspended in the application's hook, another task's operation runs (a sweep, the late response for this or for another
    # overdue request); random schedules of several operations suspended in the hook at once (turn-level model, op c.sched)
    from corr import c14
    for ttl in (1024, 15 * 1024):
        for k in (1, 2, 3):
            for what in ('self', 'other', 'unknown', 'sweep'):
                yield from c14.interleaved_history(ttl, k, what, 1)
    for _ in range(120 if thorough else 30):
        yield from c14.sched_history(rng, rng.choice((1024, 15 * 1024)))
    # session level: the real ESME.start() with a scripted SMSC, suspending hooks, back-pressure, dropped connections
    # (no model line; judged by the ledger predicate: exactly one outcome per queued message, every response attributed)
    from corr import c01s
    yield from c01s.generate(rng, 400 if thorough else 100)
    # directed: the response to a request (plain, or the first segment of a segmented message) is processed while the put
    # of that very request is suspended in the send_error hook of its sweep - on the unchanged tree the known finding
    # response-overtakes-put, nothing else
    for seg in (False, True):
        for sd in (1, 3):
            yield c01s.case_of({'msgs': [{'at': 0.5, 'log': 'L1', 'seg': False, 'react': 'silent'},
                                         {'at': 5.0, 'log': 'L2', 'seg': seg, 'react': 'ok'}],
                                'hook': 'error', 'stalls': 0, 'drops': 0, 'seed': sd, 'put_hook': False})


def replay(inp):
    import random
    if inp.get('op') == 'interleaved':
        from corr import c14
        return c14.interleaved_history(inp['ttl'], inp['k'], inp['what'], inp['which'])[-1]
    if inp.get('op') == 'sched':
        return Case('\n'.join(['c.new %d 102400' % inp['ttl']] + inp.get('lines', [])), '', None, None, inp)
    if inp.get('op') == 'session':
        from corr import c01s
        return c01s.case_of(dict(inp['sc']))
    msgs = [dict(m) for m in inp['msgs']]
    cases = history(random.Random(1), inp['label'], msgs, reuse=inp.get('reuse', False),
                    wrongtype=inp.get('wrongtype', False), jumps=inp.get('jumps', False))
    last = cases[-1]
    last.line = '\n'.join(c.line for c in cases)
    last.out = '\n'.join(c.out for c in cases)
    return last


def classify(case):
    inp = case.inp if isinstance(case.inp, dict) else {}
    if inp.get('op') == 'session':
        return inp.get('kind')
    if inp.get('reuse'):
        return 'segment-reference-reuse'
    if inp.get('wrongtype'):
        return 'wrong-type-response-consumes-request'
    return None
