"""C10 — GSM 03.38 codec: correspondence (model vs aiosmpplib.codec) and property predicate."""
import itertools
from vlib import Case, nats, hexs, exc_name
from spec import gsm as spec

ID = 'C10'
TARGETS = ['SmppVerif.Props.C10']
RULE = ('single code points x 3 modes (encode), every octet in both decoder states x 3 modes and all '
        'octet pairs (decode), all ordered pairs of alphabet characters, all strings of length <= 4 '
        'over 8 class representatives x 3 modes, seeded random strings to length 64, texts encoded again after they went '
        'through the plain and the packed codec (history independence); a case is counted '
        'as distinct-nontrivial per (operation, mode, character-class multiset / octet-class '
        'sequence, length bucket, outcome class)')
TRUSTED = ['Lean 4.33.0 kernel', 'axioms: propext, Quot.sound (no Classical.choice needed)',
           'tools/extract.py renders the module-level GSM tables faithfully',
           'hand transcription of 3GPP TS 23.038 in Spec/Gsm0338.lean and tools/spec/gsm.py',
           'tools/corr/c10.py + Driver.lean line protocol']
ASSUMPTIONS = ['str is modelled as a list of code points, bytes as a list of octets',
               'TypeError for non-str/bytes input and the argument tuple of Unicode*Error are not modelled',
               'struct.pack of the septet list is modelled as a range check']
EXHAUSTIVE = {'quick': False, 'thorough': True}

_codec = None


def codec():
    global _codec
    if _codec is None:
        from aiosmpplib.codec import find_codec_info
        _codec = find_codec_info('gsm0338')
    return _codec


MODES = ('strict', 'ignore', 'replace')


def cls_of(ch):
    o = ord(ch)
    if ch in spec.BASIC_ENC:
        return 'b'
    if ch in spec.EXT_ENC:
        return 'x'
    if o == 0x1B:
        return 'E'
    if o > 0xFFFF:
        return 'A'
    if 0xD800 <= o < 0xE000:
        return 'S'
    return 'u'


def enc_case(mode, text):
    c = codec()
    try:
        b = c.encode(text, mode)[0]
        out = 'ok ' + hexs(b)
        res = b
    except Exception as e:      # noqa
        out = 'exc ' + exc_name(e)
        res = None
    # --- property predicate (independent of the Lean model) ---
    fail = None
    inside = all(ch in spec.ALPHABET for ch in text)
    if mode == 'strict':
        if inside:
            want = spec.encode(text)
            if res != want:
                fail = 'strict encoding differs from 3GPP table: want %s' % want.hex()
            else:
                try:
                    back = c.decode(res, 'strict')[0]
                    if back != text:
                        fail = 'decode(encode(t)) != t: %r' % back
                except Exception as e:      # noqa
                    fail = 'decode(encode(t)) raised %r' % e
        elif res is not None or not out.startswith('exc UnicodeEncodeError'):
            fail = 'character outside the alphabet was not rejected in strict mode'
    elif mode == 'ignore':
        want = spec.encode(''.join(ch for ch in text if ch in spec.ALPHABET))
        if res != want:
            fail = 'ignore mode must drop exactly the characters outside the alphabet'
    else:
        if res is None:
            fail = 'replace mode raised'
        else:
            # walk: inside characters keep their septets; each outside char is exactly one septet
            pos = 0
            for ch in text:
                e = spec.enc_char(ch)
                if e is not None:
                    if res[pos:pos + len(e)] != e:
                        fail = 'replace mode changed a neighbour at septet %d' % pos
                        break
                    pos += len(e)
                else:
                    if pos >= len(res) or res[pos] > 0x7F or res[pos] == spec.ESC:
                        fail = 'replace mode did not emit exactly one plain septet for %r' % ch
                        break
                    pos += 1
            if fail is None and pos != len(res):
                fail = 'replace mode emitted extra septets'
    classes = ''.join(sorted(set(cls_of(ch) for ch in text)))
    sig = ('enc', mode, classes, min(len(text), 5) if len(text) < 5 else (8 if len(text) < 17 else 64),
           out[:3] if out.startswith('ok') else out)
    return Case('gsm.enc %s %s' % (mode, nats(text)), out, sig, fail, {'op': 'enc', 'mode': mode, 'text': [ord(ch) for ch in text]})


PLACEHOLDER = object()


def ref_decode(data, mode):
    """reference decoder from the property statement; returns list of tokens (str, or None for
    'one placeholder'), 'error', or 'unspecified'"""
    out = []
    i = 0
    n = len(data)
    while i < n:
        b = data[i]
        if b == spec.ESC:
            if i + 1 >= n:
                return 'unspecified'
            k = data[i + 1]
            if k == spec.ESC:
                return 'unspecified'
            if k in spec.EXT:
                out.append(spec.EXT[k])
            else:
                out.append(PLACEHOLDER)     # exactly one placeholder
            i += 2
            continue
        if b in spec.BASIC:
            out.append(spec.BASIC[b])
        else:
            if mode == 'strict':
                return 'error'
            if mode == 'replace':
                out.append(None)
        i += 1
    return out


def dec_case(mode, data):
    c = codec()
    data = bytes(data)
    try:
        t = c.decode(data, mode)[0]
        out = 'ok ' + nats(t)
    except Exception as e:      # noqa
        out = 'exc ' + exc_name(e)
        t = None
    fail = None
    want = ref_decode(data, mode)
    if want == 'error':
        if t is not None or out != 'exc UnicodeDecodeError':
            fail = 'octet without table entry not rejected in strict mode'
    elif want != 'unspecified':
        if t is None:
            fail = 'decoder raised on decodable input'
        elif len(t) != len(want) or any((w is PLACEHOLDER and g in spec.ALPHABET) or
                                        (w is not None and w is not PLACEHOLDER and w != g)
                                        for w, g in zip(want, t)):
            # a placeholder must be one character that no valid septet sequence decodes to
            fail = 'decoded text differs from the 3GPP table / placeholder rule: %r' % t

    def oc(b):
        return 'E' if b == spec.ESC else ('h' if b > 0x7F else ('x' if b in spec.EXT else 'b'))
    pat = ''.join(oc(b) for b in data[:3]) + ('+' if len(data) > 3 else '')
    sig = ('dec', mode, pat, out[:3] if out.startswith('ok') else out)
    return Case('gsm.dec %s %s' % (mode, hexs(data)), out, sig, fail, {'op': 'dec', 'mode': mode, 'hex': data.hex()})


def is_case(text):
    from aiosmpplib.codec import GSM7BitCodec
    r = GSM7BitCodec.is_gsm_text(text)
    want = all(ch in spec.ALPHABET for ch in text)
    fail = None if r == want else 'is_gsm_text disagrees with the 3GPP alphabet'
    return Case('gsm.is %s' % nats(text), 'ok %d' % int(r), ('is', r, min(len(text), 3)), fail,
                {'op': 'is', 'text': [ord(ch) for ch in text]})


def hist_case(mode, text, k):
    """the codec is a function of its input: the same text encoded once more after it (and its decoding) went through
    the plain and the packed codec k times gives the same octets (caches, shared buffers)"""
    from aiosmpplib.codec import find_codec_info
    pk = find_codec_info('gsm0338_packed')
    for _ in range(k):
        for c in (codec(), pk):
            try:
                b = c.encode(text, mode)[0]
                c.decode(b, mode)
            except Exception:      # noqa
                pass
    case = enc_case(mode, text)
    case.inp = {'op': 'hist', 'mode': mode, 'text': [ord(ch) for ch in text], 'k': k}
    case.sig = ('hist',) + tuple(case.sig[1:])
    if case.fail:
        case.fail = 'after the same text went through the gsm0338 and gsm0338_packed codecs %d time(s): %s' % (k, case.fail)
    return case


def hist_dec_case(mode, data, poison):
    """the decoder is a function of its input: a decode that follows a refused / lenient decode of octets ending in the escape
    code (or in a high octet) gives what it gives on a fresh codec (decoder state kept between calls)"""
    from aiosmpplib.codec import find_codec_info
    pk = find_codec_info('gsm0338_packed')
    for c in (codec(), pk):
        for pm in poison:
            try:
                c.decode(bytes([0x41, spec.ESC]), pm)
            except Exception:      # noqa
                pass
            try:
                c.decode(bytes([0x41, 0x80, spec.ESC]), pm)
            except Exception:      # noqa
                pass
    case = dec_case(mode, data)
    case.inp = {'op': 'hist-dec', 'mode': mode, 'hex': bytes(data).hex(), 'poison': list(poison)}
    case.sig = ('hist-dec',) + tuple(case.sig[1:])
    if case.fail:
        case.fail = 'after decodes (%s) of octets ending in the escape code: %s' % ('/'.join(poison), case.fail)
    return case


REPS = ['A', '@', '€', '[', 'Α', '中', '\U0001F600', '\x1b']


def unicode_reps():
    """first code point(s) of every general category and of every canonical combining class"""
    import unicodedata
    seen = {}
    for cp in itertools.chain(range(0x20, 0x3000), range(0xFE00, 0xFE10), range(0xFFF0, 0x10000), range(0x1F3FB, 0x1F400),
                              range(0xE0100, 0xE0104)):
        ch = chr(cp)
        if 0xD800 <= cp < 0xE000:
            continue
        key = (unicodedata.category(ch), unicodedata.combining(ch))
        if seen.get(key, 0) < 2:
            seen[key] = seen.get(key, 0) + 1
            yield ch


def touch_helpers(rng):
    """what else in the library uses the codec's tables: alphabet detection and the two splitters (utils.py), the encoder
    entry of SubmitSm.  Called between the codec cases: the codec must be unimpressed by whoever else has read its tables."""
    from aiosmpplib import utils
    from aiosmpplib.protocol import SubmitSm
    for t in ('hello', 'price 5€ [x]', 'жук', 'a' * 200, '€' * 100, 'tab\there'):
        for fn in (utils.detect_format, lambda x: utils.split_sms(x, ''), lambda x: utils.split_sms_udh(x, '', 7),
                   lambda x: utils.split_sms(x, 'gsm0338'), lambda x: utils.split_sms_udh(x, 'ucs2', 300)):
            try:
                fn(t)
            except Exception:      # noqa
                pass
        try:
            m = SubmitSm(short_message=t)
            m.set_encoding_info('gsm0338', {})
            m.smpp_encode()
        except Exception:      # noqa
            pass


def generate(rng, tier):
    thorough = tier == 'thorough'
    # 0. the extension table and a few texts before and after the other users of the tables have run
    for ch in sorted(spec.ALPHABET):
        if len(spec.encode(ch)) == 2:
            yield enc_case('strict', ch)
    touch_helpers(rng)
    for ch in sorted(spec.ALPHABET):
        if len(spec.encode(ch)) == 2:
            for m in MODES:
                yield enc_case(m, 'a' + ch + 'b')
    # 0b. long texts (beyond any bulk-path threshold: 1025 .. 70000 characters) with one outsider of each kind - ASCII
    #     control characters, backtick, DEL, Latin-1, BMP, astral - at a random place, and without any
    outsiders = ['\t', '\x01', '`', '\x7f', '\xe7', 'Ā', '中', '\U0001F600']
    alpha0 = sorted(spec.ALPHABET - {'\x1b'})
    for n in ((1025, 3000, 70000) if thorough else (1025, 3000)):
        base = [rng.choice(alpha0) for _ in range(n)]
        for m in MODES:
            yield enc_case(m, ''.join(base))
        for o in outsiders:
            t = list(base)
            t[rng.randrange(n)] = o
            for m in MODES:
                yield enc_case(m, ''.join(t))
    # 0c. strict rejection is what makes the Sender fall back to UCS2 - the first time a message is sent and every time the
    #     same object is sent again after a failed transmission (session ledger of C01, wire check only)
    from corr import c01s
    for k in range(6 if thorough else 3):
        sc = dict(msgs=[dict(at=0.7 + 0.1 * k, log='L1', seg=False, react='reset', ucs=True),
                        dict(at=3.0, log='L2', seg=False, react='ok', ucs=True)],
                  hook='none', stalls=0, drops=0, seed=rng.randrange(10 ** 9), put_hook=False, order=(1, 7)[k % 2],
                  again=dict(log='L1', mode='same', after=9.5 + k))
        c = c01s.case_of(sc, 'c13')
        c.fail = c01s.wire_text_check(sc)          # (judged by the wire alone here)
        yield c
    # 1. single code points, every mode
    if thorough:
        cps = range(0x110000)
    else:
        cps = itertools.chain(range(0x3000), range(0x3000, 0x110000, 257))
    for cp in cps:
        ch = chr(cp)
        for m in MODES:
            yield enc_case(m, ch)
        if cp < 0x3000 or thorough and cp % 64 == 0:
            yield is_case(ch)
    # 2. decoder: every octet in both states, all pairs
    for m in MODES:
        for b in range(256):
            yield dec_case(m, [b])
            yield dec_case(m, [spec.ESC, b])
            yield dec_case(m, [spec.ESC, b, 0x41])
            yield dec_case(m, [0x41, b, 0x42])
    pair_modes = MODES if thorough else ('strict',)
    for m in pair_modes:
        for a in range(256):
            for b in range(256):
                yield dec_case(m, [a, b])
    if not thorough:
        for m in ('ignore', 'replace'):
            for _ in range(20000):
                yield dec_case(m, [rng.randrange(256), rng.randrange(256)])
    # 3. all ordered pairs of alphabet characters
    alpha = sorted(spec.ALPHABET)
    for a in alpha:
        for b in alpha:
            yield enc_case('strict', a + b)
    # 4. class representatives, exhaustively to length 4 (3 in quick for the lenient modes)
    for n in range(0, 5):
        for tup in itertools.product(REPS, repeat=n):
            t = ''.join(tup)
            for m in MODES:
                if n == 4 and not thorough and m != 'replace':
                    continue
                yield enc_case(m, t)
            if n <= 3:
                yield is_case(t)
    # 5. random strings
    pool_in = alpha
    pool_out = ['Α', '中', '\U0001F600', '\x1b', '\xe7', 'Ā', '\ud800']
    for _ in range(20000 if thorough else 3000):
        n = rng.randrange(1, 65)
        p_out = rng.choice((0.0, 0.0, 0.05, 0.3))
        t = ''.join(rng.choice(pool_out) if rng.random() < p_out else rng.choice(pool_in) for _ in range(n))
        yield enc_case(rng.choice(MODES), t)
        if p_out == 0.0:
            b = spec.encode(t)
            yield dec_case(rng.choice(MODES), b)
    for _ in range(20000 if thorough else 3000):
        n = rng.randrange(1, 40)
        data = [rng.choice((rng.randrange(128), rng.randrange(256), spec.ESC, 0x65)) for _ in range(n)]
        yield dec_case(rng.choice(MODES), data)
    # 5b. one representative of every Unicode general category and of every canonical combining class (combining marks,
    #     joiners, variation selectors, format characters ...) after, between and before alphabet characters, all modes
    for r in unicode_reps():
        for m in MODES:
            for t in ('e' + r, 'e' + r + 'z', r + 'z', '€' + r + r, 'a' + r + '[' + r):
                yield enc_case(m, t)
    # 5c. decoder history: a decode after another decode was refused (strict) or ended in the escape code
    for _ in range(2000 if thorough else 300):
        n = rng.randrange(1, 20)
        data = [rng.choice((rng.randrange(128), 0x28, 0x65, 0x3C)) for _ in range(n)]
        yield hist_dec_case(rng.choice(MODES), data, rng.choice((('strict',), ('replace',), ('ignore',), ('strict', 'replace'))))
    # 6. history independence: texts that have been through both codecs before
    for _ in range(3000 if thorough else 500):
        n = rng.randrange(1, 30)
        p_out = rng.choice((0.0, 0.0, 0.1))
        t = ''.join(rng.choice(pool_out) if rng.random() < p_out else rng.choice(pool_in) for _ in range(n))
        yield hist_case(rng.choice(MODES), t, rng.randrange(1, 4))


def replay(inp):
    if inp['op'] == 'session':
        from corr import c01s
        return c01s.case_of(dict(inp['sc']), 'c13')
    if inp['op'] == 'hist-dec':
        return hist_dec_case(inp['mode'], bytes.fromhex(inp['hex']), tuple(inp['poison']))
    if inp['op'] == 'hist':
        return hist_case(inp['mode'], ''.join(chr(c) for c in inp['text']), inp['k'])
    if inp['op'] == 'enc':
        return enc_case(inp['mode'], ''.join(chr(c) for c in inp['text']))
    if inp['op'] == 'dec':
        return dec_case(inp['mode'], bytes.fromhex(inp['hex']))
    return is_case(''.join(chr(c) for c in inp['text']))


def classify(case):
    return None
