"""C03 — PDU encode/decode round trip: correspondence (pdu(), parse_header, from_pdu) and the
round-trip predicate."""
import struct
from datetime import datetime, timedelta, timezone
from vlib import Case, exc_name
from corr import pdulib as L

ID = 'C03'
TARGETS = ['SmppVerif.Props.C03']
THOROUGH_ROUNDS = 2
RULE = ('generated messages of all 15 classes over the field space (boundary integers, C-octet strings at 0/1/max length, '
        'every TON/NPI/status member, optional parameters of every kind in random number and order, texts per data coding at '
        'lengths around 0/160/254/255/300, message_payload, schedule/validity times, every default-alphabet configuration of '
        'the modelled codecs), encoded and decoded; plus values the constructor accepts but SMPP does not allow (negative / '
        'oversized integers, non-ASCII strings, names without codec or data coding, unknown error handlers) and byte-level '
        'corruptions of valid PDUs for the decoder (truncation at every offset, length-field perturbations, invalid enum '
        'values). distinct-nontrivial = distinct (operation, class, encoding, carrier, #TLVs bucket, time kinds, outcome class)')
TRUSTED = ['Lean 4.33.0 kernel', 'axioms: propext, Quot.sound, Classical.choice',
           'tools/extract.py (TLV table, enums, constants)', 'CPython struct / str.encode / bytes.index (modelled, swept)',
           'tools/corr/pdulib.py rendering of message objects']
ASSUMPTIONS = ['codecs other than gsm0338, gsm0338_packed, ucs2, ascii, latin_1 are outside the model (inputs using them are '
               'only judged by the round-trip predicate on the real code, not compared with the model)',
               'custom_codecs are not modelled']
EXHAUSTIVE = {'quick': False, 'thorough': False}
DEFAULTS = ('gsm0338', 'gsm0338', 'gsm0338', 'ucs2', 'ascii', 'latin_1', 'gsm0338_packed')


def same_time(a, b):
    if a is None or b is None:
        return a is b
    if isinstance(a, timedelta):
        return isinstance(b, timedelta) and timedelta(days=a.days, seconds=a.seconds) == b
    if not isinstance(b, datetime):
        return False
    a = a.replace(microsecond=a.microsecond // 100000 * 100000)
    if a.tzinfo is None:
        a = a.replace(tzinfo=timezone.utc)
    return a == b and a.utcoffset() == b.utcoffset()


def packed_ambiguity(m, default, sent, got):
    """the packed codec's own ambiguity (C11): one extra '@' when 8n-1 septets leave 7 pad bits"""
    from spec import gsm as gspec
    enc = m.encoding or default
    if enc != 'gsm0338_packed' or got != sent + '@':
        return False
    septets = gspec.encode(sent)
    return septets is not None and len(septets) % 8 == 7


def wf_message(m):
    """is the value inside what SMPP 3.4 allows (the property's domain)?"""
    if hasattr(m, 'short_message'):
        ints = (m.esm_class, m.protocol_id, m.priority_flag, m.registered_delivery, m.replace_if_present_flag,
                m.sm_default_msg_id)
        if any(not (0 <= v <= 255) for v in ints) or not (0 <= m.sequence_num < 2 ** 32):
            return False
        if m.esm_class & 0x40:
            return False            # UDHI needs a user data header in the text: not a plain text message
        for s in (m.service_type, m.source.number, m.destination.number):
            if any(ord(c) == 0 or ord(c) > 127 for c in s):
                return False
        if m.error_handling != 'strict' or m.encoding not in (None, 'gsm0338', 'ucs2', 'ascii', 'latin_1', 'gsm0338_packed'):
            return False
        # data_coding 0 means "the SMSC default alphabet": naming gsm0338 / gsm0338_packed explicitly is only
        # meaningful when that is the configured default alphabet
        if m.encoding in ('gsm0338', 'gsm0338_packed') and m.encoding != getattr(m, '_default_encoding', 'gsm0338'):
            return False
        for p in m.optional_params or []:
            if isinstance(p.value, bool):
                continue
            if isinstance(p.value, int):
                if not (0 <= p.value < 256 ** p.length):
                    return False
            elif any(ord(c) == 0 or ord(c) > 127 for c in p.value):
                return False
        return True
    return 0 <= m.sequence_num < 2 ** 32


def enc_case(rng, m, default, wf_intended):
    from aiosmpplib.protocol import SubmitSm
    line_msg = L.show_msg(m)
    opaque = hasattr(m, 'encoding') and (L.is_opaque(m.encoding) or L.is_opaque(default)
                                          or m.error_handling in L.REGISTERED_HANDLERS)
    if isinstance(m, SubmitSm):
        m.set_encoding_info(default, None)
    try:
        pdu = m.pdu()
        out = 'ok %s %s' % (pdu.hex(), L.enc_triple(m.encoding) if hasattr(m, 'encoding') else '~')
    except Exception as e:      # noqa
        pdu = None
        out = 'exc ' + exc_name(e)
    fail = None
    if wf_intended and wf_message(m):
        if pdu is None:
            # text not encodable under the chosen alphabet is outside the domain
            too_long = (hasattr(m, 'short_message') and m.short_message and not m.auto_message_payload
                        and out == 'exc ValueError')
            text = (getattr(m, 'short_message', '') or getattr(m, 'message_payload', '') or '')
            auto_ok = (hasattr(m, 'short_message') and m.encoding is None and not getattr(m, '_preencoded', False)
                       and not any(0xD800 <= ord(ch) <= 0xDFFF for ch in text))
            if out.startswith('exc Unicode') and auto_ok and not too_long:
                # automatic encoding falls back to UCS2, which can carry every text without lone surrogates
                fail = 'pdu() of a text under automatic encoding raised (%s) instead of falling back to UCS2' % out
            elif not out.startswith('exc Unicode') and not too_long:
                fail = 'pdu() of an allowed value raised (%s)' % out
        else:
            if struct.unpack('!I', pdu[:4])[0] != len(pdu):
                fail = 'command_length %d != %d bytes produced' % (struct.unpack('!I', pdu[:4])[0], len(pdu))
            else:
                try:
                    back = L.decode_pdu(pdu, default)
                    if hasattr(m, 'short_message'):
                        # octet count of the text by codecs that are not the library's (decides which of
                        # short_message / message_payload the text must read back in)
                        from spec import smpp as _S
                        _alpha = m.encoding or default or 'gsm0338'
                        _tb = _S.text_bytes(m.short_message or m.message_payload, _alpha) if _alpha in _S.DATA_CODING else None
                        m._wire_len = len(_tb) if _tb is not None else None
                    want = L.normalise_expected(m, default)
                    got = {k: v for k, v in back.__dict__.items() if not k.startswith('_')}
                    either = want.pop('_either_field', None)
                    for k in want:
                        a, b = want[k], got.get(k)
                        if either is not None and k in ('short_message', 'message_payload'):
                            continue
                        if k in ('schedule_delivery_time', 'validity_period'):
                            ok = same_time(a, b)
                        elif k in ('short_message', 'message_payload') and a and packed_ambiguity(m, default, a, b):
                            ok = True
                        else:
                            ok = a == b
                        if not ok:
                            fail = 'field %s: sent %r, decoded %r' % (k, a, b)
                            break
                    if either is not None and fail is None and (got.get('short_message') or got.get('message_payload')) != either \
                            and not packed_ambiguity(m, default, either, got.get('short_message') or got.get('message_payload')):
                        fail = 'text: sent %r, decoded %r' % (either, got.get('short_message') or got.get('message_payload'))
                    if type(back) is not type(m) and fail is None:
                        fail = 'decoded as %s' % type(back).__name__
                except Exception as e:      # noqa
                    fail = 'decoding the produced PDU raised %r' % (e,)
    cls = type(m).__name__
    sig = ('enc', cls, getattr(m, 'encoding', None), default if hasattr(m, 'encoding') else '',
           bool(getattr(m, 'message_payload', '')), min(len(getattr(m, 'optional_params', None) or []), 3),
           out[:3] if out.startswith('ok') else out)
    line = ('# opaque ' if opaque else '') + 'pdu.enc %s %s' % (L.enc_triple(default), line_msg)
    if opaque:
        out = line
    return Case(line, out, sig, fail, {'op': 'enc', 'default': default, 'msg': line_msg}), pdu


def dec_case(pdu, default, tag):
    try:
        m = L.decode_pdu(pdu, default)
        out = 'ok ' + L.show_msg(m)
        opaque = hasattr(m, 'encoding') and L.is_opaque(m.encoding)
    except Exception as e:      # noqa
        out = 'exc ' + exc_name(e)
        opaque = False
        # a data_coding naming an opaque codec: the model cannot follow the text decoding
        if len(pdu) > 16:
            try:
                from aiosmpplib.protocol import SmppMessage
                SmppMessage.parse_header(pdu[:16])
            except Exception:      # noqa
                pass
    line = 'pdu.dec %s %s' % (L.enc_triple(default), pdu.hex() or '-')
    cmd = pdu[4:8].hex() if len(pdu) >= 8 else 'short'
    sig = ('dec', tag, cmd, out.split(' ')[1] if out.startswith('ok') else out)
    if opaque or _names_opaque(pdu):
        return Case('# opaque ' + line, '# opaque ' + line, sig, None, {'op': 'dec', 'default': default, 'hex': pdu.hex()})
    return Case(line, out, sig, None, {'op': 'dec', 'default': default, 'hex': pdu.hex()})


def _names_opaque(pdu):
    """does the body name a data_coding whose codec is outside the model? (cheap scan: the
    decoder may fail before or after using it, so such inputs are not compared)"""
    if len(pdu) < 20 or pdu[4:8] not in (b'\x00\x00\x00\x04', b'\x00\x00\x00\x05'):
        return False
    try:
        i = 16
        i = pdu.index(b'\x00', i) + 1
        i += 2
        i = pdu.index(b'\x00', i) + 1
        i += 2
        i = pdu.index(b'\x00', i) + 1
        i += 3
        i = pdu.index(b'\x00', i) + 1
        i = pdu.index(b'\x00', i) + 1
        i += 2
        return pdu[i] in (5, 6, 7, 9, 10, 14)
    except (ValueError, IndexError):
        return False


def corruptions(rng, pdu, n):
    out = []
    for cut in range(0, len(pdu)):
        out.append(pdu[:cut])
    for _ in range(n):
        b = bytearray(pdu)
        k = rng.randrange(8)
        if k == 0 and len(b) > 16:
            b[rng.randrange(16, len(b))] = rng.choice((0, 1, 0x40, 0x7F, 0x80, 0xFF))
        elif k == 1:
            struct.pack_into('!I', b, 0, rng.choice((0, 15, 16, len(b) - 1, len(b) + 1, 2 ** 31)))
        elif k == 2 and len(b) > 20:
            i = rng.randrange(16, len(b))
            del b[i:i + rng.randrange(1, 4)]
        elif k == 3:
            b += bytes(rng.randrange(256) for _ in range(rng.randrange(1, 6)))
        elif k == 4 and len(b) > 16:
            b[rng.randrange(16, len(b))] ^= 1 << rng.randrange(8)
        elif k == 5:
            struct.pack_into('!I', b, 8, rng.choice((0, 1, 0x58, 0xFF, 0x100, 0x400)))
        elif k == 6 and len(b) > 16:
            i = rng.randrange(16, len(b))
            b[i:i] = bytes((0,))
        else:
            struct.pack_into('!I', b, 4, rng.choice((0x04, 0x05, 0x80000004, 0x03, 0x0B, 0x102, 0x99, 0x80000000)))
        out.append(bytes(b))
    return out


def custom_codec_case(rng):
    """custom_codecs (ESME constructor argument; keys are SmppDataCoding member names): {'ucs2': <little-endian UTF-16>} - a
    text that does not fit the default alphabet (automatic encoding: the UCS2 fall-back) or an explicit ucs2 must be encoded
    with the codec it will be decoded with; and a codec registered under each of the other member names, the mixed-case
    ones included (octet_unspecified_I / II, the 8-bit binary codings 2 and 4), must be found under that name"""
    import codecs
    from aiosmpplib.protocol import SubmitSm, DeliverSm, SmppMessage
    from aiosmpplib.state import SmppDataCoding
    cls = rng.choice((SubmitSm, DeliverSm))
    if rng.random() < 0.5:
        name, codec = 'ucs2', codecs.lookup('utf-16-le')
        text = rng.choice(('Привет', 'жж€', 'abc', '日本語テキスト', 'x' * 100 + 'ж'))
        enc = rng.choice((None, None, 'ucs2'))
    else:
        name = rng.choice([m.name for m in SmppDataCoding if m.name not in ('gsm0338', 'ucs2')])
        codec = codecs.lookup(rng.choice(('utf-8', 'utf-16-le', 'cp1252')))
        text = rng.choice(('abc', 'déjà vu', 'binary?'))
        enc = name
    custom = {name: codec}
    m = cls(short_message=text, encoding=enc, sequence_num=rng.randrange(1, 1000))
    fail = None
    try:
        m.set_encoding_info('gsm0338', custom)
        pdu = m.pdu()
        back = cls.from_pdu(pdu, SmppMessage.parse_header(pdu[:16]), 'gsm0338', custom)
        got = back.short_message or back.message_payload
        if got != text:
            fail = 'with a custom codec for %s, %s (encoding %r) reads back as %s' % (name, ascii(text), enc, ascii(got))
    except Exception as e:      # noqa
        fail = 'with a custom codec for %s, %s (encoding %r): %r' % (name, ascii(text), enc, e)
    line = '# custom-codec %s %s %r %s' % (cls.__name__, name, enc, ascii(text))
    return Case(line, line, ('custom-codec', cls.__name__, name, enc is None), fail, {'op': 'custom', 'note': line})


def long_payload_case(rng, n_octets, kind):
    """texts whose encoding fills message_payload up to its last octets (the two-octet length field allows 65535): the PDU the
    library writes for them must be one it reads back (predicate only; the model is compared on shorter texts)"""
    from aiosmpplib.protocol import SubmitSm, DeliverSm, SmppMessage
    from aiosmpplib.state import OptionalParam
    cls = rng.choice((SubmitSm, DeliverSm))
    if kind == 'gsm':
        text = ''.join(rng.choice('abcdefghij XYZ.,') for _ in range(n_octets))
    elif kind == 'ucs2':
        text = ''.join(rng.choice('жяблок') for _ in range(n_octets // 2))
    else:
        text = ''.join(rng.choice('abcdefghij') for _ in range(n_octets - 2 * 400)) + '€' * 400
    params = [OptionalParam(0x0204, 7), OptionalParam(0x0381, '1' * 18)] if rng.random() < 0.5 else []
    fail = None
    try:
        m = cls(message_payload=text, sequence_num=rng.randrange(1, 2 ** 31), optional_params=params) if rng.random() < 0.5 \
            else cls(short_message=text, sequence_num=rng.randrange(1, 2 ** 31), optional_params=params)
        m.set_encoding_info('gsm0338', None)
        pdu = m.pdu()
        back = cls.from_pdu(pdu, SmppMessage.parse_header(pdu[:16]), 'gsm0338', None)
        got = back.short_message or back.message_payload
        if got != text:
            fail = 'a %d-octet %s text in message_payload reads back differently (first difference at %d)' % (
                n_octets, kind, next((i for i, (a, b) in enumerate(zip(got, text)) if a != b), min(len(got), len(text))))
    except Exception as e:      # noqa
        fail = 'a %d-octet %s text in message_payload (PDU written by the library): %r' % (n_octets, kind, e)
    line = '# long-payload %s %s %d' % (cls.__name__, kind, n_octets)
    return Case(line, line, ('long-payload', kind, n_octets > 65000), fail, {'op': 'long-payload', 'note': line})


def session_wire_case(rng, default, enc, text, auto):
    """the same round trip through the real Sender: an ESME configured with `default` as the SMSC's alphabet takes the message
    from the broker and writes it; what it wrote, read by the decoder under the same configuration, is the text"""
    from aiosmpplib.protocol import SubmitSm, SmppMessage
    from corr import c06
    fail = None
    try:
        m = SubmitSm(short_message=text, encoding=enc, auto_message_payload=auto, log_id='w')
        obs = c06.batch([m], default)
        written = obs[0]['written'] if obs else []
        if not obs or obs[0]['errors'] or not written:
            fail = 'the message was not transmitted (%s)' % (obs[0]['errors'] if obs else 'no observation')
        elif len(written) == 1:
            back = SubmitSm.from_pdu(written[0], SmppMessage.parse_header(written[0][:16]), default, None)
            got = back.short_message or back.message_payload
            # (packed 7-bit text: a final septet of zeros in the last octet reads back as one '@' - tolerated, see C11)
            if got != text and not ('packed' in default and got == text + '@'):
                i = next((k for k, (a, b) in enumerate(zip(got, text)) if a != b), min(len(got), len(text)))
                fail = ('sent through an ESME with default alphabet %s (encoding %r, auto_message_payload=%s): the PDU on the wire reads '
                        'back differently from character %d on (%s.. instead of %s..)' % (default, enc, auto, i, ascii(got[i:i + 12]), ascii(text[i:i + 12])))
    except Exception as e:      # noqa
        fail = 'sending %d characters through an ESME with default alphabet %s (encoding %r): %r' % (len(text), default, enc, e)
    line = '# session-wire %s %r auto=%s n=%d' % (default, enc, auto, len(text))
    return Case(line, line, ('session-wire', default, enc, auto, len(text) > 254), fail,
                {'op': 'session-wire', 'default': default, 'encoding': enc, 'auto': auto, 'text': [ord(c) for c in text[:400]], 'n': len(text)})


def session_wire_cases(rng, thorough, packed_only=False):
    texts = ['Pay 7$ @ desk_3 [open] {now}', 'caf\xe9 na\xefve \xfcber', 'plain text 123', '\u20ac uro [x]']
    confs = []
    if not packed_only:
        for default in ('latin_1', 'ascii', 'ucs2', 'gsm0338'):
            for auto in (False, True):
                confs.append((default, None, auto, rng.choice(texts[:1] + texts[2:]) if default == 'ascii' else rng.choice(texts)))
        confs.append(('gsm0338', 'ucs2', False, texts[1]))
        confs.append(('gsm0338', 'latin_1', False, texts[1]))
    # the packed codec on long texts (beyond any slice or block size a sender may work in), extension characters early on
    body = ''.join(rng.choice('abcdefghij XYZ') for _ in range(5000))
    # (an explicit gsm0338_packed under another default is announced as data_coding 0 like the default: not decodable, known)
    for default, enc in (('gsm0338_packed', None), ('gsm0338_packed', 'gsm0338_packed')):
        for cut in ((3, 2047, 2049) if thorough else (3,)):
            t = body[:cut] + '\u20ac[' + body[cut:]
            confs.append((default, enc, True, t[:rng.choice((2100, 4500))]))
    for default, enc, auto, text in confs:
        yield session_wire_case(rng, default, enc, text, auto)


def generate(rng, tier):
    thorough = tier == 'thorough'
    yield from session_wire_cases(rng, thorough)
    n = 4000 if thorough else 900
    pdus = []
    for i in range(n):
        default = rng.choice(DEFAULTS)
        if i % 3 == 2:
            m = L.rand_other(rng)
        else:
            m = L.rand_sm(rng, rng.choice(('SubmitSm', 'SubmitSm', 'DeliverSm')))
        if i % 5 == 3 and type(m).__name__ == 'SubmitSm' and m.message_payload and not m.short_message and m.error_handling == 'strict':
            # ... and for a message whose text is in message_payload the Sender encodes the empty short_message and hands that back
            try:
                m.set_encoding_info(default, None)
                _enc0 = m.encoding
                m.set_encoded_message(m.smpp_encode(m.short_message))
                m.encoding = _enc0
            except Exception:      # noqa
                pass
        if i % 5 == 1 and type(m).__name__ == 'SubmitSm' and m.short_message and not m.message_payload and m.encoding is None \
                and m.error_handling == 'strict':
            # the way the Sender serialises an unsplit message when auto_message_payload is off: smpp_encode() first (which
            # chooses the alphabet), the octets handed back through set_encoded_message(), then pdu()
            try:
                m.set_encoding_info(default, None)
                _enc0 = m.encoding
                _pre = m.smpp_encode(m.short_message)
                if len(_pre) <= 254:            # longer texts are split by the Sender, never handed over whole
                    m.set_encoded_message(_pre)
                else:
                    m.encoding = _enc0
            except Exception:      # noqa
                pass
        c, pdu = enc_case(rng, m, default, True)
        yield c
        if pdu is not None and i % 2 == 0:
            from corr.c04 import again_case
            yield again_case(m, default, c.inp['msg'], pdu, c.line.startswith('# opaque'))
        if pdu is not None:
            yield dec_case(pdu, default, 'own')
            if i % 7 == 0:
                yield dec_case(pdu, rng.choice(('', 'ucs2', 'ascii', 'gsm0338')), 'own-otherdefault')
            if len(pdus) < 60:
                pdus.append((pdu, default))
    # a custom codec registered for ucs2 (custom_codecs of ESME): whatever encodes must be what decodes (predicate only)
    for _ in range(120 if thorough else 40):
        yield custom_codec_case(rng)
    for n_oct in ((65535, 65534, 65500, 65480, 60000, 40000, 32768) if thorough else (65535, 65500, 40000)):
        for kind in ('gsm', 'ucs2', 'gsm-ext'):
            yield long_payload_case(rng, n_oct, kind)
    # values the constructor accepts but the wire format does not
    for _ in range(1500 if thorough else 400):
        try:
            m = L.rand_sm(rng, 'SubmitSm', wf=False)
        except ValueError:
            continue
        c, _ = enc_case(rng, m, rng.choice(DEFAULTS), False)
        yield c
    # user data headers of every shape, well-formed or not (element walk of decode_message)
    from spec import smpp as S
    for _ in range(1200 if thorough else 300):
        n_ie = rng.randrange(0, 4)
        ies = b''
        for _k in range(n_ie):
            ie = rng.choice((0, 0, 8, 8, 5, 4, 1, rng.randrange(256)))
            ln = rng.choice((3, 4, 0, 2, rng.randrange(8))) if rng.random() < 0.4 else {0: 3, 8: 4, 5: 4, 4: 2}.get(ie, 1)
            ies += bytes([ie, ln]) + bytes(rng.randrange(256) for _j in range(ln))
        ln = len(ies) if rng.random() < 0.7 else rng.randrange(0, len(ies) + 4)
        udh = bytes([ln]) + ies
        if rng.random() < 0.15:
            udh = udh[:rng.randrange(len(udh) + 1)]
        data = udh + bytes(rng.choice(b'abc@ 1') for _j in range(rng.randrange(4)))
        payload = rng.random() < 0.2
        body = S.sm_body(esm_class=rng.choice((0x40, 0x40, 0x44, 0xC0)), data_coding=rng.choice((0, 1, 3)),
                         short_message=b'' if payload else data, tlvs=[(0x0424, data)] if payload else [])
        yield dec_case(S.pdu(rng.choice((4, 5)), 0, rng.randrange(1, 2 ** 31), body), 'gsm0338', 'udh-fuzz')
    # malformed stream for the decoder
    for pdu, default in pdus[: (60 if thorough else 25)]:
        for bad in corruptions(rng, pdu, 60 if thorough else 25):
            yield dec_case(bad, default, 'corrupt')


def replay(inp):
    if inp.get('op') == 'session-wire':
        return Case('# ' + str(inp)[:200], '', None, None, inp)
    if inp['op'] == 'dec':
        return dec_case(bytes.fromhex(inp['hex']), inp['default'], 'replay')
    return Case('pdu.%s %s %s' % (inp['op'], L.enc_triple(inp['default']), inp['msg']), '', None, None, inp)


def classify(case):
    return None
