"""C12 — JSON serialisation round trip: correspondence (object -> JSON tree -> object, through the
real json_encode / json_decode) and the property predicate (decoded == original, field by field)."""
import enum
import json
from datetime import datetime, timedelta, timezone
from fractions import Fraction
from vlib import Case, nats, exc_name
from corr import pdulib as L

ID = 'C12'
TARGETS = ['SmppVerif.Props.C12']
THOROUGH_ROUNDS = 5
RULE = ('generated instances of all 15 classes (field space of C03 plus: log_id/extra_data over ASCII, quotes, back-slashes, '
        'control characters, non-BMP and lone surrogates; every status member on every class that keeps it; aware datetimes with '
        'whole-minute, whole-second and negative offsets, naive ones, microseconds 0 and not 0, years 1..9999; timedeltas with '
        'fractional seconds, zero, negative, up to 10^9 s; optional parameters of every value type in any number), serialised by '
        'json_encode, the text parsed by json.loads into a tree and compared with the model tree, decoded by json_decode and '
        'compared with the model object and with the original; malformed stream for dict_to_smpp_message: keys removed, type key '
        'absent/empty/unknown/not handled, null where a value is expected. distinct-nontrivial = distinct (operation, class, '
        'which optional fields are set, time kinds, parameter value kinds, mutation kind, outcome class)')
TRUSTED = ['Lean 4.33.0 kernel', 'axioms: propext, Quot.sound, Classical.choice',
           'tools/extract.py gen_shape: dataclass fields via dataclasses.fields/typing hints; from_json argument expressions via AST '
           'pattern matching (five patterns; anything else becomes Conv.unknown and breaks the theorem)',
           'json.dumps/json.loads of CPython (the model starts and ends at the tree between them)',
           'datetime.isoformat/fromisoformat and float exactness of timedelta.total_seconds/timedelta(seconds=) are modelled and '
           'swept, not verified', 'tools/corr/c12.py + DriverJson.lean line protocol']
ASSUMPTIONS = ['a tzinfo is reduced to its utcoffset in whole seconds; equality of datetimes = same fields and same offset',
               'a float is identified with the microsecond count it denotes (exact for |t| below about 140 years)',
               'constructor validation is a function of the field values, so a value accepted once is accepted again',
               'requests carry command_status ESME_ROK (SMPP 3.4: the field is null in requests) for bind_* classes']
EXHAUSTIVE = {'quick': False, 'thorough': False}

STRINGS = ['', 'log-1', 'a b', 'q"uote', 'back\\slash', 'tab\there', 'nl\nx', 'ünï', '日本', '\U0001F600', 'x\ud800y', '\x00', '\x7f',
           '{"k": 1}', '[1]', 'null', '__smpp_command__', "'", ' ']


def show_val(v):
    from aiosmpplib.state import PhoneNumber, OptionalParam
    if v is None:
        return 'n'
    if isinstance(v, bool):
        return 'b1' if v else 'b0'
    if isinstance(v, enum.IntEnum):
        return 'e%d' % int(v)
    if isinstance(v, int):
        return 'i%d' % v
    if isinstance(v, str):
        return 's' + nats(v)
    if isinstance(v, datetime):
        off = v.utcoffset()
        if off is not None and off.microseconds:
            return '?offset-us'
        return 'd%d.%d.%d.%d.%d.%d.%d.%s' % (v.year, v.month, v.day, v.hour, v.minute, v.second, v.microsecond,
                                             '-' if off is None else str(off.days * 86400 + off.seconds))
    if isinstance(v, timedelta):
        return 't%d.%d.%d' % (v.days, v.seconds, v.microseconds)
    if isinstance(v, PhoneNumber):
        return 'p%d.%d.%s' % (int(v.ton), int(v.npi), nats(v.number))
    if isinstance(v, list) and all(isinstance(p, OptionalParam) for p in v):
        if not v:
            return 'P-'
        out = []
        for p in v:
            if isinstance(p.value, bool):
                out.append('%d:b:%d' % (p.tag, 1 if p.value else 0))
            elif isinstance(p.value, int):
                out.append('%d:i:%d' % (p.tag, p.value))
            else:
                out.append('%d:s:%s' % (p.tag, nats(p.value)))
        return 'P' + ';'.join(out)
    return '?' + type(v).__name__


def show_obj(m):
    attrs = [(k, v) for k, v in m.__dict__.items() if not k.startswith('_')]
    return type(m).__name__ + ''.join(' %s=%s' % (k, show_val(v)) for k, v in attrs)


def show_leaf(v):
    if v is None:
        return 'n'
    if isinstance(v, bool):
        return 'b1' if v else 'b0'
    if isinstance(v, int):
        return 'i%d' % v
    if isinstance(v, float):
        us = Fraction(v) * 1000000
        return 'f%d' % round(us)
    if isinstance(v, str):
        return 's' + nats(v)
    return '?' + type(v).__name__


def show_dict(d):
    return '{' + '&'.join('%s=%s' % (k, show_leaf(v)) for k, v in d.items()) + '}'


def show_jval(v):
    if isinstance(v, dict):
        return show_dict(v)
    if isinstance(v, list):
        return '[' + ';'.join(show_dict(e) if isinstance(e, dict) else '?' for e in v) + ']'
    return show_leaf(v)


def show_top(t):
    return ' '.join('%s=%s' % (k, show_jval(v)) for k, v in t.items())


def same_value(a, b):
    """equality the property speaks of: same type and fields; datetimes additionally same utcoffset"""
    if isinstance(a, datetime) and isinstance(b, datetime):
        return a.replace(tzinfo=None) == b.replace(tzinfo=None) and a.utcoffset() == b.utcoffset()
    if type(a) is not type(b) and not (isinstance(a, int) and isinstance(b, int) and not isinstance(a, bool)
                                       and not isinstance(b, bool)):
        return False
    return a == b


def rt_case(m, tag):
    from aiosmpplib.jsonutils import json_encode, json_decode
    line = 'json.rt ' + show_obj(m)
    fail = None
    try:
        text = json_encode(m)
        tree = json.loads(text)
        out = 'ok ' + show_top(tree) + ' | '
        try:
            back = json_decode(text)
            out += show_obj(back)
            if type(back) is not type(m):
                fail = 'decoded as %s' % type(back).__name__
            else:
                for k, v in m.__dict__.items():
                    if k.startswith('_'):
                        continue
                    w = back.__dict__.get(k)
                    ok = same_value(v, w)
                    if isinstance(v, list):
                        ok = len(v) == len(w or []) and all(p.tag == q.tag and same_value(p.value, q.value) for p, q in zip(v, w))
                    if not ok:
                        fail = 'field %s: %r came back as %r' % (k, v, w)
                        break
                if fail is None and not (back == m):
                    fail = 'decoded message != original'
        except Exception as e:      # noqa
            out += 'exc ' + exc_name(e)
            fail = 'json_decode(json_encode(m)) raised %r' % (e,)
        if not isinstance(tree, dict) or not tree.get('__smpp_command__'):
            fail = fail or 'encoded form does not name the message type'
    except Exception as e:      # noqa
        out = 'exc ' + exc_name(e)
        fail = 'json_encode raised %r' % (e,)
    d = m.__dict__
    sig = ('rt', type(m).__name__, tag, bool(d.get('log_id')), bool(d.get('extra_data')), int(d.get('command_status', 0)) != 0,
           type(d.get('schedule_delivery_time')).__name__, type(d.get('validity_period')).__name__,
           tuple(sorted({type(p.value).__name__ for p in (d.get('optional_params') or [])})), out.split(' ')[0])
    if '?' in line:
        return Case('# outside the model ' + line, '# outside the model ' + line, sig, fail, {'op': 'rt', 'obj': line})
    return Case(line, out, sig, fail, {'op': 'rt', 'obj': line})


def decode_twice_case(rng, m, tag):
    """json_decode is a function of the text: the same text decoded again, after the first result was changed the way the
    library changes messages (sequence number at send time, encoding switched by pdu(), tracking data), is the message that was
    encoded - not the object handed out before (predicate only)"""
    from aiosmpplib.jsonutils import json_encode, json_decode
    fail = None
    line = '# decode-twice ' + show_obj(m).encode('ascii', 'backslashreplace').decode('ascii')
    try:
        text = json_encode(m)
        first = json_decode(text)
        d = first.__dict__
        if 'sequence_num' in d:
            first.sequence_num = (first.sequence_num + 4242) % 0x7FFFFFFF
        if 'log_id' in d:
            first.log_id = 'changed'
        if 'encoding' in d:
            first.encoding = 'ucs2'
        if isinstance(d.get('optional_params'), list):
            first.optional_params.clear()
        second = json_decode(text)
        if second is first:
            fail = 'json_decode returned the object it had returned for the same text before'
        elif not (second == m):
            fail = 'the same JSON text decoded a second time is not the message that was encoded'
    except Exception as e:      # noqa
        fail = 'encode / decode / decode raised %r' % (e,)
    return Case(line, line, ('decode-twice', type(m).__name__), fail, {'op': 'decode-twice', 'obj': line})


def rand_dt(rng):
    import calendar
    y = rng.choice((1, 999, 1969, 2000, 2024, 2099, 9999, rng.randrange(1, 10000)))
    mo = rng.randrange(1, 13)
    d = rng.choice((1, calendar.monthrange(y, mo)[1], rng.randrange(1, calendar.monthrange(y, mo)[1] + 1)))
    us = rng.choice((0, 0, 1, 999999, 500000, rng.randrange(1000000)))
    dt = datetime(y, mo, d, rng.randrange(24), rng.randrange(60), rng.randrange(60), us)
    off = rng.choice((None, None, 0, 900, -900, 3600, 19800, -34200, 86399, -86399, 59, -1, 3601, rng.randrange(-86399, 86400)))
    if off is not None:
        if off % 60 == 0 and abs(off) < 86400 and rng.random() < 0.5:
            # the library's own tzinfo class: what from_pdu attaches to every absolute SMPP time it reads
            from aiosmpplib.utils import FixedOffset
            dt = dt.replace(tzinfo=FixedOffset(timedelta(seconds=off), '%+03d:%02d' % (int(off / 3600), abs(off) % 3600 // 60)))
        else:
            dt = dt.replace(tzinfo=timezone(timedelta(seconds=off)))
    return dt


def rand_td(rng):
    k = rng.randrange(8)
    if k == 0:
        return timedelta(0)
    if k == 1:
        return timedelta(seconds=rng.randrange(86400 * 441))
    if k == 2:
        return timedelta(microseconds=rng.choice((1, 999999, 1000001, rng.randrange(10 ** 12))))
    if k == 3:
        return -timedelta(days=rng.randrange(400), seconds=rng.randrange(86400), microseconds=rng.randrange(10 ** 6))
    if k == 4:
        return timedelta(seconds=rng.choice((0.1, 0.5, 1.5, 2.25, 59.999999, 1e9 + 0.000001)))
    return timedelta(days=rng.randrange(10000), seconds=rng.randrange(86400), microseconds=rng.randrange(10 ** 6))


def rand_time(rng):
    k = rng.randrange(5)
    if k < 2:
        return None
    return rand_dt(rng) if k < 4 else rand_td(rng)


def rebuilt(m):
    """the same values through the constructor (so that only constructible messages are judged)"""
    try:
        return type(m)(**{k: v for k, v in m.__dict__.items() if not k.startswith('_')})
    except Exception:      # noqa
        return None


def rand_msg(rng):
    while True:
        m, tag = _rand_msg(rng)
        m = rebuilt(m)
        if m is not None:
            return m, tag


def _rand_msg(rng):
    from aiosmpplib import protocol as p
    from aiosmpplib.state import SmppCommandStatus
    st = rng.choice(list(SmppCommandStatus))
    k = rng.randrange(10)
    if k < 5:
        m = L.rand_sm(rng, rng.choice(('SubmitSm', 'DeliverSm')))
        m.schedule_delivery_time = rand_time(rng)
        m.validity_period = rand_time(rng)
        m.log_id = rng.choice(STRINGS)
        m.extra_data = rng.choice(STRINGS)
        m.command_status = st
        if rng.random() < 0.3:
            m.error_handling = rng.choice(('xmlcharrefreplace', 'bogus', ''))
        if rng.random() < 0.2:
            m.encoding = rng.choice(('utf-8', 'nosuch', 'UCS2', 'octet_unspecified_I'))
        if rng.random() < 0.3:
            m.service_type = rng.choice(STRINGS)[:5]
        from aiosmpplib.state import OptionalParam
        if rng.random() < 0.25:
            # a segment as the library itself holds it: the UDHI flag AND the SAR parameters (a concatenated deliver_sm parsed
            # from the wire, the submit_sm segments the Sender makes of a long UDHI message - the correlator persists those)
            m.esm_class = int(m.esm_class) | 0x40
            m.optional_params = [q for q in (m.optional_params or []) if q.tag not in (0x020C, 0x020E, 0x020F)] + [
                OptionalParam(0x020C, rng.randrange(65536)), OptionalParam(0x020F, rng.randrange(1, 4)), OptionalParam(0x020E, 3)]
        if rng.random() < 0.25:
            # octet-string parameters whose value ends in NUL octets (network_error_code with error 0, its_session_info ...)
            tag, val = rng.choice(((0x0423, '\x03\x00\x00'), (0x1383, '\x00\x00'), (0x0381, '\x01\x00\x00\x00'),
                                   (0x0423, '\x03\x00\x05'), (0x1383, '\x07\x00')))
            m.optional_params = [q for q in (m.optional_params or []) if q.tag != tag] + [OptionalParam(tag, val)]
        return m, 'sm'
    m = L.rand_other(rng)
    if hasattr(m, 'log_id'):
        m.log_id = rng.choice(STRINGS)
        m.extra_data = rng.choice(STRINGS)
    if hasattr(m, 'message_id') and rng.random() < 0.5:
        m.message_id = rng.choice(STRINGS)
    return m, 'other'


MUTATIONS = ('drop-key', 'no-type', 'empty-type', 'unknown-type', 'unhandled-type', 'null-value', 'extra-key', 'not-dict')


def dec_case(rng, m):
    """dict_to_smpp_message / json_decode on a tree that is not what json_encode writes"""
    from aiosmpplib.jsonutils import json_encode, json_decode
    tree = json.loads(json_encode(m))
    mut = rng.choice(MUTATIONS)
    keys = [k for k in tree if k != '__smpp_command__']
    note = mut
    if mut == 'drop-key' and keys:
        k = rng.choice(keys)
        del tree[k]
        note = 'drop-key:' + k
    elif mut == 'no-type':
        del tree['__smpp_command__']
    elif mut == 'empty-type':
        tree['__smpp_command__'] = rng.choice(('', None))
    elif mut == 'unknown-type':
        tree['__smpp_command__'] = rng.choice(('SUBMIT', 'submit_sm', 'X', 'SubmitSm'))
    elif mut == 'unhandled-type':
        tree['__smpp_command__'] = rng.choice(('QUERY_SM', 'DATA_SM', 'OUTBIND', 'ALERT_NOTIFICATION'))
    elif mut == 'null-value' and keys:
        k = rng.choice([x for x in keys if x in ('schedule_delivery_time', 'validity_period', 'optional_params', 'encoding',
                                                 'sc_interface_version')] or keys[:1])
        if k not in ('schedule_delivery_time', 'validity_period', 'optional_params', 'encoding', 'sc_interface_version'):
            mut = 'extra-key'
        else:
            tree[k] = None
            note = 'null-value:' + k
    if mut == 'extra-key':
        tree['zzz_unknown'] = 1
        note = 'extra-key'
    if mut == 'not-dict':
        text = rng.choice(('[]', '1', '"x"', 'null'))
        try:
            json_decode(text)
            out = 'ok ?'
        except Exception as e:      # noqa
            out = 'exc ' + exc_name(e)
        fail = None if out == 'exc ValueError' else 'json_decode(%s) -> %s' % (text, out)
        return Case('# not-dict ' + text, '# not-dict ' + text, ('dec', 'not-dict', out), fail, {'op': 'notdict', 'text': text})
    line = 'json.dec ' + show_top(tree)
    try:
        back = json_decode(json.dumps(tree))
        out = 'ok ' + show_obj(back)
    except Exception as e:      # noqa
        out = 'exc ' + exc_name(e)
    sig = ('dec', type(m).__name__, note.split(':')[0], note.split(':')[1] if ':' in note else '', out.split(' ')[0] + out.split(' ')[1][:12])
    if '?' in line or '?' in out:
        return Case('# outside the model ' + line, '# outside the model ' + line, sig, None, {'op': 'dec', 'tree': line})
    return Case(line, out, sig, None, {'op': 'dec', 'tree': line})


def generate(rng, tier):
    thorough = tier == 'thorough'
    for i in range(6000 if thorough else 1500):
        m, tag = rand_msg(rng)
        yield rt_case(m, tag)
        if i % 4 == 0:
            # the same object serialised again after the library (or the application) changed it: the sequence number is
            # assigned at send time, the correlator copies tracking data onto responses, a status is set, a parameter added
            from aiosmpplib.state import SmppCommandStatus, OptionalParam
            d = m.__dict__
            # every other time ONE thing changes and nothing else (a memo keyed by any one field must notice the others)
            only = rng.choice(('seq', 'log', 'extra', 'status', 'param', 'encoding')) if i % 8 == 0 else None
            if 'sequence_num' in d and only in (None, 'seq'):
                m.sequence_num = (m.sequence_num + 1 + rng.randrange(1000)) % 0x7FFFFFFF
            if 'log_id' in d and only in (None, 'log'):
                m.log_id = 'again%d' % i
            if 'extra_data' in d and only in (None, 'extra'):
                m.extra_data = 'x%d' % i
            if 'encoding' in d and only == 'encoding':
                m.encoding = 'ucs2' if m.encoding != 'ucs2' else 'latin_1'
            # (the command_status of a request is null in SMPP 3.4 and not a constructor argument of the request classes)
            if 'command_status' in d and (type(m).__name__.endswith('Resp') or type(m).__name__ == 'GenericNack') and (
                    only == 'status' or (only is None and rng.random() < 0.5)):
                m.command_status = rng.choice(list(SmppCommandStatus))
            if isinstance(d.get('optional_params'), list) and (only == 'param' or (only is None and rng.random() < 0.3)):
                m.optional_params.append(OptionalParam(0x0204, rng.randrange(65536)))
            yield rt_case(m, tag + '-again')
        if i % 6 == 1:
            yield decode_twice_case(rng, m, tag)
    for _ in range(2500 if thorough else 600):
        m, _t = rand_msg(rng)
        yield dec_case(rng, m)
    # sweeps for the CPython parts the model describes: isoformat / fromisoformat, float exactness
    from aiosmpplib.protocol import SubmitSm
    for _ in range(3000 if thorough else 700):
        yield rt_case(SubmitSm(short_message='x', schedule_delivery_time=rand_dt(rng), validity_period=rand_td(rng)), 'time-sweep')


def replay(inp):
    """replays re-run the model line; the real side is rebuilt from the line by eval-free parsing"""
    if inp.get('op') == 'rt':
        m = parse_obj(inp['obj'][len('json.rt '):])
        return rt_case(m, 'replay')
    return Case(inp.get('tree', '#'), '', None, None, inp)


def parse_obj(s):
    from aiosmpplib import protocol as p
    from aiosmpplib.state import PhoneNumber, OptionalParam, SmppCommandStatus, TON, NPI
    ws = s.split(' ')
    cls = getattr(p, ws[0])
    kw = {}

    def codes(t):
        return '' if t == '-' else ''.join(chr(int(c)) for c in t.split(','))
    for w in ws[1:]:
        k, v = w.split('=', 1)
        c, r = v[0], v[1:]
        if c == 'n':
            kw[k] = None
        elif c == 'b':
            kw[k] = r == '1'
        elif c == 'i':
            kw[k] = int(r)
        elif c == 's':
            kw[k] = codes(r)
        elif c == 'e':
            kw[k] = {'command_status': SmppCommandStatus, 'addr_ton': TON, 'addr_npi': NPI}[k](int(r))
        elif c == 'd':
            y, mo, d, h, mi, sc, us, off = r.split('.')
            kw[k] = datetime(int(y), int(mo), int(d), int(h), int(mi), int(sc), int(us),
                             None if off == '-' else timezone(timedelta(seconds=int(off))))
        elif c == 't':
            d, sc, us = r.split('.')
            kw[k] = timedelta(days=int(d), seconds=int(sc), microseconds=int(us))
        elif c == 'p':
            t, n, num = r.split('.', 2)
            kw[k] = PhoneNumber(codes(num), TON(int(t)), NPI(int(n)))
        elif c == 'P':
            ps = []
            if r != '-':
                for e in r.split(';'):
                    t, kd, val = e.split(':')
                    ps.append(OptionalParam(int(t), int(val) if kd == 'i' else (val == '1') if kd == 'b' else codes(val)))
            kw[k] = ps
    return cls(**kw)


def classify(case):
    return None
