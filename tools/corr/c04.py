"""C04 — wire conformance against an independent SMPP 3.4 encoder (tools/spec/smpp.py), in
both directions.  Model lines reuse the C03 operations (pdu.enc / pdu.dec)."""
import struct
from vlib import Case, exc_name
from corr import pdulib as L
from corr.c03 import wf_message, same_time
from spec import smpp as S

ID = 'C04'
TARGETS = ['SmppVerif.Props.C04']
THOROUGH_ROUNDS = 8
RULE = ('encoding direction: generated messages of all 15 classes (field space of C03) compared octet for octet with the '
        'independent encoder; decoding direction: PDUs built by the independent encoder in shapes the library never emits '
        '(TLVs in every order and before/after message_payload, bind_resp with and without sc_interface_version and without '
        'body on error status, UDH with 8- and 16-bit reference, NUL-terminated octet strings, submit_sm_resp without '
        'body) decoded and compared with the field values they were built from. distinct-nontrivial = distinct '
        '(direction, class, alphabet, carrier, TLV shape, foreign-shape kind, outcome class)')
TRUSTED = ['Lean 4.33.0 kernel', 'axioms: propext, Quot.sound, Classical.choice',
           'hand transcription of SMPP 3.4 in Spec/Smpp34.lean and tools/spec/smpp.py; 3GPP tables (C10/C11)',
           'tools/extract.py (TLV table, enums)']
ASSUMPTIONS = ['text codecs other than gsm0338, gsm0338_packed, ucs2, ascii, latin_1 are not judged',
               'a SubmitSm whose auto-detected alphabet falls back to UCS2 is expected to announce data_coding 8']
EXHAUSTIVE = {'quick': False, 'thorough': False}


def spec_pdu(m, default):
    """independent encoding of a library message object (None if outside the oracle's domain)"""
    name = type(m).__name__
    cmd = S.COMMAND_IDS[name]
    st = int(m.command_status)
    seq = m.sequence_num
    if name in ('SubmitSm', 'DeliverSm'):
        text = m.short_message or m.message_payload
        alphabet = m.encoding or default
        if alphabet not in S.DATA_CODING:
            return None
        data = S.text_bytes(text, alphabet)
        dc = S.DATA_CODING[alphabet] if m.encoding else 0
        if data is None:
            if m.encoding:
                return None
            data = S.text_bytes(text, 'ucs2')       # automatic alphabet: UCS2 fall-back, announced as such
            dc = 8
            if data is None:
                return None
        tlvs = []
        sm = data
        if m.message_payload or len(data) > 254:
            if m.short_message and not m.auto_message_payload:
                return None
            sm = b''
            tlvs.append((0x0424, data))
        for p in m.optional_params or []:
            if isinstance(p.value, bool) and S.tlv_kind(p.tag)[0] == 'flag':
                if p.value:
                    tlvs.append((p.tag, b''))
                continue
            tlvs.append((p.tag, S.tlv_value(p.tag, p.value)))
        body = S.sm_body(m.service_type, (int(m.source.ton), int(m.source.npi), m.source.number),
                         (int(m.destination.ton), int(m.destination.npi), m.destination.number), m.esm_class,
                         m.protocol_id, m.priority_flag, S.time_str(m.schedule_delivery_time),
                         S.time_str(m.validity_period), m.registered_delivery, m.replace_if_present_flag, dc,
                         m.sm_default_msg_id, sm, tlvs)
        return S.pdu(cmd, st, seq, body)
    if name in ('SubmitSmResp', 'DeliverSmResp'):
        return S.pdu(cmd, st, seq, S.cstr(m.message_id))
    if name in ('BindTransceiver', 'BindTransmitter', 'BindReceiver'):
        body = S.cstr(m.system_id) + S.cstr(m.password) + S.cstr(m.system_type) + \
            struct.pack('!BBB', m.interface_version, int(m.addr_ton), int(m.addr_npi)) + S.cstr(m.address_range)
        return S.pdu(cmd, st, seq, body)
    if name.endswith('Resp') and name.startswith('Bind'):
        body = S.cstr(m.system_id)
        if m.sc_interface_version is not None:
            body += S.tlv(0x0210, bytes([m.sc_interface_version]))
        return S.pdu(cmd, st, seq, body)
    return S.pdu(cmd, st, seq)


def enc_case(rng, m, default):
    from aiosmpplib.protocol import SubmitSm
    line_msg = L.show_msg(m)
    opaque = hasattr(m, 'encoding') and (L.is_opaque(m.encoding) or L.is_opaque(default))
    if isinstance(m, SubmitSm):
        m.set_encoding_info(default, None)
        m._default_encoding = default
    want = spec_pdu(m, default) if wf_message(m) else None
    try:
        pdu = m.pdu()
        out = 'ok %s %s' % (pdu.hex(), L.enc_triple(m.encoding) if hasattr(m, 'encoding') else '~')
    except Exception as e:      # noqa
        pdu = None
        out = 'exc ' + exc_name(e)
    fail = None
    if want is not None and pdu is not None and pdu != want:
        i = next((k for k in range(min(len(pdu), len(want))) if pdu[k] != want[k]), min(len(pdu), len(want)))
        fail = 'octet %d differs from the independent SMPP 3.4 encoding: got %s.., want %s..' % (
            i, pdu[i:i + 8].hex(), want[i:i + 8].hex())
    elif want is not None and pdu is None and not (out.startswith('exc Unicode') or out == 'exc ValueError'):
        fail = 'pdu() raised %s on a value the specification allows' % out
    sig = ('enc', type(m).__name__, getattr(m, 'encoding', None), bool(getattr(m, 'message_payload', '')),
           min(len(getattr(m, 'optional_params', None) or []), 3), want is not None,
           out[:3] if out.startswith('ok') else out)
    line = ('# opaque ' if opaque else '') + 'pdu.enc %s %s' % (L.enc_triple(default), line_msg)
    if opaque:
        out = line
    c = Case(line, out, sig, fail, {'op': 'enc', 'default': default, 'msg': line_msg})
    return c, again_case(m, default, line_msg, pdu, opaque)


def again_case(m, default, line_msg, first, opaque):
    """pdu() called a second time on the same object (a message sent again after a failed attempt, or serialised by a
    hook): the bytes on the wire must be the same conformant bytes"""
    if first is None:
        return None
    try:
        second = m.pdu()
        out = 'ok %s %s' % (second.hex(), L.enc_triple(m.encoding) if hasattr(m, 'encoding') else '~')
    except Exception as e:      # noqa
        second = None
        out = 'exc ' + exc_name(e)
    fail = None
    if second != first:
        fail = 'pdu() called again on the same object gave %s, the first call gave %s' % (
            out if second is None else second.hex(), first.hex())
    sig = ('enc2', type(m).__name__, getattr(m, 'encoding', None), bool(getattr(m, 'message_payload', '')),
           len(first) > 16 + 254, out[:3] if out.startswith('ok') else out)
    line = ('# opaque ' if opaque else '') + 'pdu.enc2 %s %s' % (L.enc_triple(default), line_msg)
    if opaque:
        out = line
    return Case(line, out, sig, fail, {'op': 'enc2', 'default': default, 'msg': line_msg})


def foreign(rng, k=None, last=None):
    """(pdu, default alphabet, expected field dict, kind); k, last: a particular shape / which parameter comes last"""
    k = rng.randrange(11) if k is None else k
    seq = rng.randrange(1, 2 ** 31)
    if k == 10:         # octet-string parameters whose value contains NUL octets (network_error_code, callback_num ...)
        vals = [(0x0423, bytes([3, 0, rng.randrange(1, 128)])), (0x0381, bytes([1, 0, 0]) + b'12345'),
                (0x1383, bytes([rng.randrange(128), 0, 5])), (0x1401, b'a\x00b\x00c'), (0x0204, struct.pack('!H', 7))]
        rng.shuffle(vals)
        vals = vals[:rng.randrange(1, 6)]
        body = S.sm_body(dst=(1, 1, '555'), data_coding=1, short_message=b'ok', tlvs=vals)
        exp = {'short_message': 'ok',
               'params': sorted((t, int.from_bytes(v, 'big') if t == 0x0204 else v.decode('ascii')) for t, v in vals)}
        return S.pdu(S.DELIVER_SM, 0, seq, body), 'gsm0338', exp, 'octets-with-nul'
    if k == 0:          # TLVs in arbitrary order around message_payload
        tlvs = [(0x0204, struct.pack('!H', rng.randrange(65536)), 'int'), (0x001E, b'abc123\x00', 'cstr'),
                (0x0424, 'payload text'.encode('ascii'), 'payload'), (0x020A, struct.pack('!H', 7), 'int'),
                (0x130C, b'', 'flag'), (0x0427, bytes([2]), 'int'), (0x1400, b'vendor', 'octets')]
        rng.shuffle(tlvs)
        if last is not None:
            tlvs.sort(key=lambda x: x[0] == last)          # this parameter is the last one of the PDU
        body = S.sm_body(dst=(1, 1, '123'), data_coding=1, short_message=b'', tlvs=[(t, v) for t, v, _ in tlvs])
        exp = {'message_payload': 'payload text', 'short_message': '',
               'params': sorted((t, _val(t, v, kind)) for t, v, kind in tlvs if kind != 'payload')}
        return S.pdu(S.DELIVER_SM, 0, seq, body), 'gsm0338', exp, 'tlv-order'
    if k == 1:          # bind_transceiver_resp with sc_interface_version
        body = S.cstr('SMSC') + S.tlv(0x0210, bytes([0x34]))
        return S.pdu(0x80000009, 0, seq, body), 'gsm0338', {'system_id': 'SMSC', 'sc_interface_version': 0x34}, 'bindresp-tlv'
    if k == 2:          # without
        return S.pdu(0x80000002, 0, seq, S.cstr('X')), 'gsm0338', {'system_id': 'X', 'sc_interface_version': None}, 'bindresp-plain'
    if k == 3:          # bind_resp on error status: body omitted (SMPP 3.4 4.1.x note)
        return S.pdu(0x80000001, 0x0E, seq, b''), 'gsm0338', {'system_id': '', 'command_status': 0x0E}, 'bindresp-nobody'
    if k == 4:          # UDH 8-bit / 16-bit, GSM / UCS2
        wide = rng.random() < 0.5
        ucs2 = rng.random() < 0.5
        ref = rng.randrange(256, 65536) if wide else rng.randrange(256)
        tot = rng.randrange(2, 10)
        sq = rng.randrange(1, tot + 1)
        text = 'часть' if ucs2 else 'part{€}'
        from spec import gsm as g
        data = text.encode('utf-16-be') if ucs2 else g.encode(text)
        body = S.sm_body(esm_class=0x40, data_coding=8 if ucs2 else 0,
                         short_message=S.udh_concat(ref, tot, sq, wide) + data)
        exp = {'short_message': text, 'seg': (ref, sq, tot), 'encoding': 'ucs2' if ucs2 else None}
        return S.pdu(S.DELIVER_SM, 0, seq, body), 'gsm0338', exp, 'udh16' if wide else 'udh8'
    if k == 5:          # octet-string TLV written NUL-terminated by the peer
        body = S.sm_body(data_coding=1, short_message=b'hi', tlvs=[(0x0202, b'subaddr\x00'), (0x001D, b'info\x00')])
        exp = {'short_message': 'hi', 'params': sorted([(0x0202, 'subaddr'), (0x001D, 'info')])}
        return S.pdu(S.DELIVER_SM, 0, seq, body), 'gsm0338', exp, 'nul-terminated-octets'
    if k == 6:          # submit_sm_resp on error: body may be omitted
        return S.pdu(0x80000004, 0x58, seq, b''), 'gsm0338', {'message_id': '', 'command_status': 0x58}, 'smresp-nobody'
    if k == 7:          # SAR TLVs in non-canonical order
        body = S.sm_body(data_coding=0, short_message=b'abc',
                         tlvs=[(0x020E, bytes([3])), (0x020F, bytes([2])), (0x020C, struct.pack('!H', 513))])
        return S.pdu(S.DELIVER_SM, 0, seq, body), 'gsm0338', {'short_message': 'abc', 'seg': (513, 2, 3)}, 'sar-order'
    if k == 9:          # UDH with other elements (16-bit / 8-bit port addressing) around or instead of the concatenation element
        wide = rng.random() < 0.5
        ref = rng.randrange(256, 65536) if wide else rng.randrange(256)
        tot = rng.randrange(2, 9)
        sq = rng.randrange(1, tot + 1)
        concat = S.udh_concat(ref, tot, sq, wide)[1:]
        port16 = bytes([0x05, 0x04, 0x15, 0x8A, 0x00, 0x00])
        port8 = bytes([0x04, 0x02, rng.randrange(256), rng.randrange(256)])
        shape = rng.choice(('udh-port-first', 'udh-port-after', 'udh-port-both', 'udh-port-only'))
        ies = {'udh-port-first': port16 + concat, 'udh-port-after': concat + port8, 'udh-port-both': port8 + concat + port16,
               'udh-port-only': port16}[shape]
        udh = bytes([len(ies)]) + ies
        body = S.sm_body(esm_class=0x40, data_coding=0, short_message=udh + b'ab')
        seg = (0, 0, 0) if shape == 'udh-port-only' else (ref, sq, tot)
        return S.pdu(S.DELIVER_SM, 0, seq, body), 'gsm0338', {'short_message': 'ab', 'seg': seg}, shape
    # 8: every mandatory field non-default
    from datetime import datetime, timedelta, timezone
    nn, sign = rng.choice((39, 0, 1, 14, 22, 48, rng.randrange(49))), rng.choice('+-')
    tenth = rng.randrange(10)
    vp = '2402292359%02d%d%02d%s' % (58, tenth, nn, sign)
    off = timedelta(minutes=15 * nn) * (1 if sign == '+' else -1)
    sched = rng.choice(('', '000007000000000R'))
    body = S.sm_body('WAP', (5, 9, 'alpha'), (1, 1, '4477'), 0x04, 0x7F, 3, sched, vp, 17, 1, 3, 9, 'caf\xe9'.encode('latin-1'))
    exp = {'validity_period': datetime(2024, 2, 29, 23, 59, 58, tenth * 100000, tzinfo=timezone(off)),
           'schedule_delivery_time': timedelta(days=7) if sched else None,
           'service_type': 'WAP', 'short_message': 'café', 'esm_class': 4, 'protocol_id': 0x7F, 'priority_flag': 3,
           'registered_delivery': 17, 'replace_if_present_flag': 1, 'sm_default_msg_id': 9, 'encoding': 'latin_1',
           'src': (5, 9, 'alpha'), 'dst': (1, 1, '4477')}
    return S.pdu(S.SUBMIT_SM, 0, seq, body), 'gsm0338', exp, 'all-mandatory'


def _val(tag, raw, kind):
    if kind == 'int':
        return int.from_bytes(raw, 'big')
    if kind == 'flag':
        return True
    if kind == 'cstr':
        return raw[:-1].decode('ascii')
    return raw.decode('ascii')


def dec_case(rng, k=None, last=None):
    pdu, default, exp, kind = foreign(rng, k, last)
    fail = None
    if rng.random() < 0.3:
        # the decoder is a function of the PDU: PDUs the library refuses (GSM text ending in the escape code, an undecodable
        # UCS2 tail) decoded just before must leave no trace
        for bad_text, dc in ((b'ab\x1b', 0), (b'\x1b', 0), (b'\xd8\x00', 8)):
            try:
                L.decode_pdu(S.pdu(S.DELIVER_SM, 0, 77, S.sm_body(data_coding=dc, short_message=bad_text)), rng.choice(('gsm0338', 'gsm0338_packed')))
            except Exception:      # noqa
                pass
        kind = kind + '+after-refused'
    try:
        m = L.decode_pdu(pdu, default)
        out = 'ok ' + L.show_msg(m)
    except Exception as e:      # noqa
        m = None
        out = 'exc ' + exc_name(e)
        fail = 'a conformant %s PDU was not decoded (%s)' % (kind, out)
    if m is not None:
        for k, v in exp.items():
            if k == 'params':
                got = sorted((p.tag, p.value) for p in m.optional_params)
                ok = got == v
            elif k == 'seg':
                got = m.get_segmentation_data()
                ok = got == v
            elif k in ('src', 'dst'):
                p = m.source if k == 'src' else m.destination
                got = (int(p.ton), int(p.npi), p.number)
                ok = got == v
            elif k == 'command_status':
                got = int(m.command_status)
                ok = got == v
            elif k == 'validity_period':
                got = getattr(m, k)
                ok = got == v and got.utcoffset() == v.utcoffset()      # the same instant, written with the same offset
            else:
                got = getattr(m, k)
                ok = got == v
            if not ok:
                fail = '%s: field %s decoded as %r, built from %r' % (kind, k, got, v)
                break
    sig = ('dec', kind, out.split(' ')[1] if out.startswith('ok') else out)
    return Case('pdu.dec %s %s' % (L.enc_triple(default), pdu.hex()), out, sig, fail,
                {'op': 'dec', 'default': default, 'hex': pdu.hex(), 'kind': kind})


def generate(rng, tier):
    thorough = tier == 'thorough'
    for i in range(4000 if thorough else 900):
        default = rng.choice(('gsm0338', 'gsm0338', 'gsm0338', 'ucs2', 'ascii', 'latin_1'))
        m = L.rand_other(rng) if i % 3 == 2 else L.rand_sm(rng, rng.choice(('SubmitSm', 'SubmitSm', 'DeliverSm')))
        c, again = enc_case(rng, m, default)
        yield c
        if again is not None:
            yield again
    for _ in range(600 if thorough else 200):
        yield dec_case(rng)
    # every shape at least once; every parameter of the permuted list in last position (the empty-valued flag included)
    for k in range(11):
        yield dec_case(rng, k)
    for last in (0x0204, 0x001E, 0x0424, 0x020A, 0x130C, 0x0427, 0x1400):
        yield dec_case(rng, 0, last)
    # large PDUs (17 .. 70 KB) on a link under back-pressure while the peer keeps the Receiver answering: the octets on the
    # wire are whole PDUs, each as announced (the wire-discipline monitor of C15 on scenarios with large messages only)
    from corr import c15
    for k in range(6 if thorough else 3):
        sc = dict(stalls=3, mode='TRANSCEIVER', horizon=20.0, hook=('none', 'sending', 'none')[k % 3], n_msgs=6, n_in=10, drops=0,
                  reject_first=False, stop_at=19.5003, seed=rng.randrange(10 ** 9), big=True)
        yield c15.case_of(sc)
    # what the Sender puts on the wire for messages it segments itself (SAR parameters or a concatenation header it builds,
    # references around the 8-bit wrap): an independent receiver must read the text the application supplied
    from corr import c08
    for udh in (True, False):
        for gsm in (True, False):
            for want in ((255, 0, 254) if udh else (255,)):
                for _ in range(3 if thorough else 1):
                    yield c08.session_segments_case(rng, (udh, gsm, rng.choice(('none', 'udh-ucs2', 'sar-gsm')), want))


def replay(inp):
    if inp['op'] == 'mon':
        from corr import c15
        return c15.case_of(inp['sc'])
    if inp['op'] == 'session-seg':
        return Case('# ' + str(inp)[:200], '', None, None, inp)
    if inp['op'] == 'dec':
        from corr.c03 import dec_case as d3
        return d3(bytes.fromhex(inp['hex']), inp['default'], 'replay')
    return Case('pdu.%s %s %s' % (inp['op'], L.enc_triple(inp['default']), inp['msg']), '', None, None, inp)


def classify(case):
    return None
