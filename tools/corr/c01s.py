"""Session-level ledger for C01 / C02 / C14: real ESME.start() on the virtual-time loop, messages
queued by the application, a scripted SMSC that accepts, rejects, nacks, answers late or not at
all, hooks that suspend, back-pressure, dropped connections.  No model line (the tier 2 model is
tied by c01.py): these cases are judged by the ledger predicate alone — every queued message gets
exactly one outcome carrying its log_id, every response handed to the hook is attributed."""
import asyncio
import random
import struct
from vlib import Case
from sim.simlib import Sim, pdu

TTL = 4.0


def scenario(rng, again=None):
    n = rng.randrange(1, 7)
    msgs = []
    for i in range(n):
        msgs.append(dict(at=round(rng.uniform(0.2, 12.0), 3), log='L%d' % (i + 1),
                         seg=rng.random() < 0.3, react=rng.choice(('ok', 'ok', 'ok', 'reject', 'throttle', 'nack', 'silent', 'late', 'slow', 'reset'))))
    sc = dict(msgs=msgs, hook=rng.choice(('none', 'none', 'sending', 'received', 'error', 'all')),
              stalls=rng.choice((0, 0, 1, 2)), drops=rng.choice((0, 0, 0, 1)), seed=rng.randrange(10 ** 9),
              put_hook=rng.random() < 0.3, order=rng.choice((1, 7)))
    for m in msgs:
        if not m['seg'] and rng.random() < 0.3:
            m['ucs'] = True
    if any(m['react'] == 'reset' for m in msgs) and rng.random() < 0.6:
        sc['stray'] = True
    if rng.random() < 0.2:
        sc['persist'] = True
        for m in msgs:
            if rng.random() < 0.5:
                m['odd'] = True
    if rng.random() < 0.1:
        # an unanswered message whose time-to-live runs out while the link is down (connection lost shortly before, the first
        # reconnection attempt refused): the first request sent afterwards is the bind request of the new connection
        t0 = round(rng.uniform(0.5, 2.0), 3)
        t_drop = round(t0 + TTL - rng.uniform(0.2, 0.9), 3) + 0.0002
        msgs = [dict(at=t0, log='L1', seg=False, react='silent'),
                dict(at=round(t_drop + 4.0, 3), log='L2', seg=False, react='ok')]
        return dict(msgs=msgs, hook='none', stalls=0, drops=0, drop_at=[t_drop], refuse=[1], seed=rng.randrange(10 ** 9),
                    put_hook=False, order=rng.choice((1, 7)))
    if rng.random() < 0.08:
        # a message with a text outside the GSM alphabet whose first transmission fails (the link is reset while it is written)
        # and which the application queues again - the very same object - after the failure was reported
        msgs = [dict(at=round(rng.uniform(0.5, 2.0), 3), log='L1', seg=False, react='reset', ucs=True),
                dict(at=round(rng.uniform(2.5, 4.0), 3), log='L2', seg=False, react='ok')]
        return dict(msgs=msgs, hook='none', stalls=0, drops=0, seed=rng.randrange(10 ** 9), put_hook=False, order=rng.choice((1, 7)),
                    again=dict(log='L1', mode='same', after=round(rng.uniform(9.0, 12.0), 3)))
    if rng.random() < 0.08:
        # an undisturbed session in which the SMSC refuses messages: every other error response comes without a body
        # (sequence numbers 2, 3, 4, ... in the order queued)
        msgs = [dict(at=round(0.5 + 0.3 * i, 3), log='L%d' % (i + 1), seg=False, react=rng.choice(('reject', 'throttle', 'reject', 'ok')))
                for i in range(rng.randrange(2, 6))]
        return dict(msgs=msgs, hook='none', stalls=0, drops=0, seed=rng.randrange(10 ** 9), put_hook=False, order=rng.choice((1, 7)))
    if rng.random() < 0.1:
        # the application queues a message right after the link went down, while the ESME is still winding the session down
        # (the Sender is waiting on the broker then): it must be sent on the next connection or handed to send_error
        t_drop = round(rng.uniform(1.0, 4.0), 3) + 0.0002
        msgs = [dict(at=round(rng.uniform(0.2, t_drop - 0.5), 3), log='L1', seg=False, react='ok'),
                dict(at=round(t_drop + rng.choice((0.0005, 0.01, 0.05, 0.2, 0.4, 0.49)), 4), log='L2', seg=rng.random() < 0.3, react='ok'),
                dict(at=round(t_drop + rng.uniform(2.0, 4.0), 3), log='L3', seg=False, react='ok')]
        return dict(msgs=msgs, hook='none', stalls=0, drops=0, drop_at=[t_drop], seed=rng.randrange(10 ** 9), put_hook=False,
                    order=rng.choice((1, 7)))
    if rng.random() < 0.12:
        # segmented messages on both sides of a reconnect: what the first one left in the correlator (accepted, waiting for
        # receipts; or unanswered) is still there when the next one is segmented on the new connection
        t_drop = round(rng.uniform(2.0, 5.0), 3) + 0.0002
        msgs = [dict(at=round(rng.uniform(0.3, t_drop - 0.8), 3), log='L1', seg=True, react=rng.choice(('ok', 'ok', 'silent'))),
                dict(at=round(t_drop + rng.uniform(1.5, 3.0), 3), log='L2', seg=True, react=rng.choice(('ok', 'ok', 'reject'))),
                dict(at=round(t_drop + rng.uniform(3.5, 5.0), 3), log='L3', seg=rng.random() < 0.5, react='ok')]
        sc = dict(msgs=msgs, hook='none', stalls=0, drops=0, drop_at=[t_drop], seed=rng.randrange(10 ** 9), put_hook=False,
                  order=rng.choice((1, 7)))
        return sc
    if again or (again is None and rng.random() < 0.25):
        # the application queues a message object a second time (a retry after its outcome), or a clone of an object
        # that has been sent already (clone() copies the sequence number the first transmission left in it)
        k = rng.randrange(n)
        sc['again'] = dict(log=msgs[k]['log'], mode=rng.choice(('clone', 'clone', 'same')),
                           after=round(rng.choice((rng.uniform(0.05, 3.0), rng.uniform(9.0, 12.0))), 3))
        if sc['again']['mode'] == 'same':
            sc['again']['after'] = round(rng.uniform(9.0, 12.0), 3)     # after its first outcome is certain
            msgs[k]['seg'] = False
            sc['drops'] = 0
    return sc


def receipt_scenario(rng):
    """messages that the SMSC accepts, followed by delivery receipts (C02)"""
    n = rng.randrange(1, 6)
    msgs = []
    for i in range(n):
        msgs.append(dict(at=round(rng.uniform(0.2, 8.0), 3), log='L%d' % (i + 1), seg=rng.random() < 0.4,
                         react=rng.choice(('ok', 'ok', 'ok', 'slow')),
                         rcpt=rng.choice(('prompt', 'prompt', 'delayed', 'error', 'tlv', 'before-sibling', 'none'))))
    return dict(msgs=msgs, hook=rng.choice(('none', 'none', 'received', 'sending')), stalls=0, drops=0,
                seed=rng.randrange(10 ** 9), put_hook=False, receipts=True, unknown=rng.random() < 0.3,
                duplicate=rng.random() < 0.2)


def run(sc):
    sc.pop('_seq_log', None)
    sc.pop('_ids', None)
    from aiosmpplib.protocol import SubmitSm
    from aiosmpplib.correlator import SimpleCorrelator
    rng = random.Random(sc['seed'])
    pdir = None
    if sc.get('persist'):
        # the correlator keeps its stores in files (a non-default configuration): what it is handed must also be writable
        import tempfile
        pdir = tempfile.mkdtemp(prefix='c01p-')
    corr = SimpleCorrelator('c', max_ttl_response=TTL, directory=pdir or '')
    s = Sim(task_order=sc.get('order', 1), enquire_link_interval=2.0, socket_timeout=3.0, correlator=corr)
    try:
        if sc['hook'] in ('sending', 'all'):
            for i in range(100):
                if rng.random() < 0.5:
                    s.hook.delays[('sending', i)] = rng.choice((0.01, 0.3, 1.2))
        if sc['hook'] in ('received', 'all'):
            for i in range(100):
                if rng.random() < 0.5:
                    s.hook.delays[('received', i)] = rng.choice((0.01, 0.4, 1.5))
        if sc['hook'] in ('error', 'all') or sc['put_hook']:
            for i in range(100):
                if rng.random() < 0.7:
                    s.hook.delays[('send_error', i)] = rng.choice((0.05, 0.5, 1.5))
        orig_put = corr.put

        async def put(msg):
            s.ev('put-start', type(msg).__name__, msg.sequence_num)
            await orig_put(msg)
            s.ev('put-done', type(msg).__name__, msg.sequence_num)
        corr.put = put
        orig_get = corr.get

        async def get(resp):
            # when the correlator was ASKED (its answer is decided before its own sweep awaits anything)
            s.ev('get-start', type(resp).__name__, resp.sequence_num)
            return await orig_get(resp)
        corr.get = get
        orig_deq = s.esme.broker.dequeue

        async def dequeue():
            m = await orig_deq()
            s.ev('dequeue', getattr(m, 'log_id', ''))
            return m
        s.esme.broker.dequeue = dequeue
        orig_sender = s.esme._dequeue_messages

        async def sender():
            # how does the Sender task end: cancelled by the session's clean-up, or of its own accord?
            try:
                r = await orig_sender()
            except asyncio.CancelledError:
                s.ev('sender-end', 'cancelled')
                raise
            except BaseException as e:      # noqa
                s.ev('sender-end', 'raised ' + type(e).__name__)
                raise
            s.ev('sender-end', 'returned')
            return r
        s.esme._dequeue_messages = sender
        react_of_log = {m['log']: m['react'] for m in sc['msgs']}
        rcpt_of_log = {m['log']: m.get('rcpt', 'none') for m in sc['msgs']}
        seq_react = {}

        # the SMSC decides per submit_sm by the log_id of the message the PDU belongs to (learnt from the sending hook)
        def learn():
            for e in s.events:
                if e[1] == 'sending' and e[2] == 'SubmitSm':
                    pass
        orig_sending = s.hook.sending

        async def sending(m, p, cid):
            if type(m).__name__ == 'SubmitSm':
                seq_react[m.sequence_num] = react_of_log.get(m.log_id, 'ok')
                sc.setdefault('_seq_log', {})[m.sequence_num] = m.log_id
            await orig_sending(m, p, cid)
        s.hook.sending = sending

        def submit_status(seq):
            r = seq_react.get(seq, 'ok')
            return {'ok': 0, 'reject': 8, 'throttle': 0x58, 'silent': None, 'late': 0, 'slow': 0, 'nack': 'nack', 'reset': None}[r]

        def on_submit(conn, seq):
            r = seq_react.get(seq, 'ok')
            if r == 'silent':
                return
            if r == 'reset':
                # the link breaks while this PDU is on its way: the write went through, drain() raises
                conn.reset()
                if sc.get('stray'):
                    # ... and the SMSC, which did get the PDU, answers it on the connection the ESME opens next
                    def stray(seq=seq):
                        live = [c for c in s.smsc.conns if not c.closed]
                        if live:
                            s.ev('stray-fed', seq)
                            live[-1].feed(pdu(0x80000004, 0, seq, b'stray%d\x00' % seq))
                    s.smsc.later(2.5, stray)
                return
            delay = {'late': TTL + 1.5, 'slow': 1.0}.get(r, 0.0) + (seq % 1000) * 1e-6
            if r == 'nack':
                s.smsc.later(delay, conn.feed, pdu(0x80000000, 3, seq))
            else:
                st = {'reject': 8, 'throttle': 0x58}.get(r, 0)
                s.smsc.msgid += 1
                mid = 'id%d' % s.smsc.msgid
                body = (mid.encode() + b'\x00') if st == 0 else (b'\x00' if seq % 2 else b'')     # error: body may be omitted
                s.smsc.later(delay, conn.feed, pdu(0x80000004, st, seq, body))
                if st == 0 and sc.get('receipts'):
                    plan = rcpt_of_log.get(sc.get('_seq_log', {}).get(seq), 'none')
                    if plan != 'none':
                        sc.setdefault('_ids', {})[mid] = sc.get('_seq_log', {}).get(seq)
                        # never at the very instant of its own response: equal timer deadlines are not ordered
                        rdelay = delay + {'prompt': 0.2, 'delayed': 3.0, 'error': 0.5, 'tlv': 0.3, 'before-sibling': 0.0001}[plan]
                        err = 17 if plan == 'error' else 0
                        if plan == 'tlv':
                            text = 'sub:001 dlvrd:001 submit date:2501011200 done date:2501011201 stat:DELIVRD err:%03d text:x' % err
                            extra = struct.pack('!HH', 0x001E, len(mid) + 1) + mid.encode() + b'\x00'
                        else:
                            text = 'id:%s sub:001 dlvrd:001 submit date:2501011200 done date:2501011201 stat:DELIVRD err:%03d text:x' % (mid, err)
                            extra = b''
                        rb = b'\x00' * 7 + b'\x04' + b'\x00' * 6 + b'\x01\x00' + bytes([len(text)]) + text.encode() + extra
                        rseq = 70000 + s.smsc.msgid
                        s.smsc.later(rdelay, conn.feed, pdu(5, 0, rseq, rb))
                        if sc.get('duplicate') and s.smsc.msgid % 3 == 0:
                            s.smsc.later(rdelay + 0.7, conn.feed, pdu(5, 0, rseq + 500, rb))
        orig_on_pdu = s.smsc.on_pdu

        def on_pdu(conn, p):
            ln, cmd, st, seq = struct.unpack('!IIII', p[:16])
            if cmd == 4:
                s.smsc.ev(s.loop.time(), 'rx', conn.idx, cmd, seq)
                on_submit(conn, seq)
            else:
                orig_on_pdu(conn, p)
        s.smsc.on_pdu = on_pdu
        queued = []
        for m in sc['msgs']:
            text = ('segmented text ' * 30) if m['seg'] else 'hello'
            if m.get('ucs') and not m['seg'] and not m.get('odd'):
                text = 'Zo\xeb says hi \u2713'          # outside the GSM alphabet: goes out as UCS2 (data_coding 8), also when sent again
            if m.get('odd'):
                # text as a careless client may hand it over: cut in the middle of a surrogate pair, Latin-1 and astral
                # characters; sent with error_handling='replace'
                text = text + ' caf\xe9 \U0001F600 cut\ud83d'
            # segmented messages: SAR parameters, or (every other one, by the position of the message) a concatenation UDH
            udh = m['seg'] and (len(queued) + sc['seed']) % 2 == 1
            queued.append(SubmitSm(short_message=text, auto_message_payload=not m['seg'], log_id=m['log'], extra_data='x' + m['log'],
                                   esm_class=0x40 if udh else 0, **({'error_handling': 'replace'} if m.get('odd') else {})))
            s.at(m['at'], s.enqueue, queued[-1])
        ag = sc.get('again')
        if ag:
            orig = next(o for o in queued if o.log_id == ag['log'])
            t_first = next(m['at'] for m in sc['msgs'] if m['log'] == ag['log'])
            if ag['mode'] == 'same':
                s.at(t_first + ag['after'], s.enqueue, orig)
            else:
                def enqueue_clone():
                    c = orig.clone()
                    c.log_id = ag['log'] + 'c'
                    c.extra_data = 'x' + ag['log'] + 'c'
                    s.enqueue(c)
                react_of_log[ag['log'] + 'c'] = react_of_log[ag['log']]
                s.at(t_first + ag['after'], enqueue_clone)
        for _ in range(sc['stalls']):
            t0 = round(rng.uniform(0.3, 12.0), 3) + 0.0004
            s.at(t0, lambda: s.smsc.conns and s.smsc.conns[-1].stall(True))
            s.at(t0 + rng.choice((0.3, 1.0)), lambda: [c.stall(False) for c in s.smsc.conns])
        for _ in range(sc['drops']):
            s.at(round(rng.uniform(1.0, 12.0), 3) + 0.0002, lambda: s.smsc.conns and s.smsc.conns[-1].feed_eof())
        if sc.get('refuse'):
            refused = set(sc['refuse'])
            s.smsc.connect = lambda n: 'refuse' if n in refused else 'ok'
        for t_d in sc.get('drop_at', ()):
            s.at(t_d, lambda: s.smsc.conns and s.smsc.conns[-1].feed_eof())
        if sc.get('unknown'):
            utext = 'id:nosuchid sub:001 dlvrd:001 submit date:2501011200 done date:2501011201 stat:DELIVRD err:000 text:x'
            ub = b'\x00' * 7 + b'\x04' + b'\x00' * 6 + b'\x01\x00' + bytes([len(utext)]) + utext.encode()
            s.at(5.0, lambda: s.smsc.conns and s.smsc.conns[-1].feed(pdu(5, 0, 99999, ub)))
        # long enough for every time-out to be noticed: last queueing + slow answer + ttl + two keep-alive periods
        s.at(40.0, s.stop)
        s.run(200)
        ev = list(s.events)
        sc['_wire'] = [bytes(p).hex() for c in s.smsc.conns for p in c.pdus if p[4:8] == b'\x00\x00\x00\x04']
    finally:
        s.close()
        if pdir:
            import shutil
            shutil.rmtree(pdir, ignore_errors=True)
    return ev


def predicate(sc, ev):
    """(failure text or None, known-finding id or None)"""
    ended = [e for e in ev if e[1] == 'start-ended']
    if not ended or ended[0][2] is not None:
        return 'start() %s' % ('still running' if not ended else 'ended with %s' % ended[0][2]), None
    # C13 on the wire: every submit_sm the SMSC reads carries a sequence number no other request of the session carried
    # (far from wrap-around here), also when the application queues an object that was sent before, or a clone of one
    seen_seq = {}
    for e in ev:
        if e[1] == 'rx' and e[3] == 4:
            if e[4] in seen_seq:
                return 'two submit_sm on the wire carry sequence number %d (at %.3f and %.3f)' % (e[4], seen_seq[e[4]], e[0]), None
            seen_seq[e[4]] = e[0]
    outcomes = {}
    seq_log = dict(sc.get('_seq_log', {}))
    put_done = set()
    put_at = {}
    asked_early = set()     # responses the correlator was asked about before the request was stored
    for e in ev:
        if e[1] == 'put-done':
            put_done.add(e[3])
            put_at.setdefault(e[3], e[0])
        if e[1] == 'get-start' and e[3] not in put_done:
            asked_early.add(e[3])
        if e[1] == 'received' and e[2] in ('SubmitSmResp', 'GenericNack'):
            if not e[4]:
                seq = struct.unpack('!I', e[3][12:16])[0]
                log = seq_log.get(seq)
                if log is not None and outcomes.get(log):
                    continue        # late: the request was already reported (time-out); handed over unattributed, as C13 says
                if seq in put_at and e[0] - put_at[seq] > TTL:
                    # late answer to a segment: the request has outlived its time-to-live (the message itself is reported
                    # once its other segments are settled)
                    continue
                text = 'a %s (status %s, seq %d, message %s) reached the received hook without log_id before its request got any outcome' % (
                    e[2], e[6], seq, log)
                # the response found nothing to be correlated with because correlator.put had not finished storing the request
                return text, ('response-overtakes-put' if seq not in put_done or seq in asked_early else None)
            outcomes.setdefault(e[4], []).append(('resp', e[6]))
        elif e[1] == 'send_error' and e[2] == 'SubmitSm':
            outcomes.setdefault(e[3], []).append(('error', e[4]))
    # C14 at session level: a request the SMSC never answers is reported as timed out, not before its time-to-live and
    # not later than the next keep-alive probe after it (plus what the hooks take)
    if not sc.get('drops') and not sc.get('stalls'):
        for m in sc['msgs']:
            if m['react'] != 'silent' or m['seg']:
                continue
            seqs = [q for q, lg in seq_log.items() if lg == m['log']]
            t_put = [e[0] for e in ev if e[1] == 'put-done' and e[3] in seqs]
            t_err = [e[0] for e in ev if e[1] == 'send_error' and e[3] == m['log'] and e[4] == 'TimeoutError']
            if t_put and t_err:
                age = t_err[0] - t_put[0]
                if age < TTL - 1e-6:
                    return 'message %s reported as timed out %.3f s after it was stored, time-to-live %.1f' % (m['log'], age, TTL), None
                if age > TTL + 2 * 2.0 + 6.0:
                    return 'message %s reported as timed out only %.3f s after it was stored (time-to-live %.1f, probes every 2 s)' % (
                        m['log'], age, TTL), None
    expect = [(dict(m), 1) for m in sc['msgs']]
    ag = sc.get('again')
    if ag:
        base = next(m for m in sc['msgs'] if m['log'] == ag['log'])
        if ag['mode'] == 'same':
            expect = [(m, 2 if m['log'] == ag['log'] else 1) for m, _ in expect]
        else:
            expect.append((dict(base, log=ag['log'] + 'c'), 1))
    for m, n_want in expect:
        got = outcomes.get(m['log'], [])
        if len(got) != n_want:
            text = 'message %s (%s%s) got %d outcomes: %s' % (m['log'], m['react'], ', segmented' if m['seg'] else '', len(got), got)
            kind = None
            if len(got) == 0:
                # was the sender task cancelled (session ended) while this message was in its hands?
                t_deq = [e[0] for e in ev if e[1] == 'dequeue' and e[2] == m['log']]
                seqs = [q for q, lg in seq_log.items() if lg == m['log']]
                t_done = [e[0] for e in ev if e[1] == 'put-done' and e[3] in seqs]
                t_drop = [e[0] for e in ev if e[1] in ('close',) and t_deq and e[0] >= t_deq[0]]
                n_expected = 1 if not m['seg'] else None
                unfinished = (not t_done) or (m['seg'] and len(t_done) < len(seqs)) or (m['seg'] and len(seqs) < 2)
                # ... the known finding is about a task that is CANCELLED with the message in its hands; a Sender that
                # takes a message from the broker and then ends of its own accord without sending or reporting it is not it
                ends = [e for e in ev if e[1] == 'sender-end' and t_deq and e[0] >= t_deq[0]]
                if ends and ends[0][2] != 'cancelled':
                    text += '; the Sender task that took it from the broker ended (%s) without sending or reporting it' % ends[0][2]
                elif t_deq and t_drop and unfinished:
                    kind = 'sender-cancelled-mid-message'
            return text, kind
    return None, None


def receipt_predicate(sc, ev):
    """C02 at session level: every delivery receipt handed to the hook carries the identity of the message it reports
    on (or none, for an unknown id), a message gets at most one attributed receipt, and exactly one when all its
    segments were accepted and receipted"""
    ended = [e for e in ev if e[1] == 'start-ended']
    if not ended or ended[0][2] is not None:
        return 'start() %s' % ('still running' if not ended else 'ended with %s' % ended[0][2])
    ids = dict(sc.get('_ids', {}))
    per_log = {}
    for e in ev:
        if e[1] == 'received' and e[2] == 'DeliverSm':
            raw = e[3]
            log = e[4]
            # which id does this PDU talk about?
            txt = raw.decode('latin-1')
            mid = None
            if 'id:' in txt:
                mid = txt.split('id:', 1)[1].split(' ', 1)[0]
            else:
                i = raw.find(b'\x00\x1e')
                if i >= 0:
                    ln = struct.unpack('!H', raw[i + 2:i + 4])[0]
                    mid = raw[i + 4:i + 4 + ln - 1].decode('ascii', 'replace')
            want = ids.get(mid)
            if log:
                per_log.setdefault(log, []).append(mid)
                if want is None:
                    return 'a receipt for the unknown id %s was handed over as message %s' % (mid, log)
                if want != log:
                    # for a segmented message the receipt reported last may be another segment's (the failing one): same message
                    return 'the receipt for id %s (message %s) was handed over with log_id %s' % (mid, want, log)
    # a message whose response the Receiver got to only after the request had outlived its time-to-live (the received hook of
    # this scenario holds the Receiver up for seconds per PDU) was reported as timed out; its response and its receipt then
    # find nothing to be correlated with - the library never learnt the id
    timed_out = {e[3] for e in ev if e[1] == 'send_error' and e[2] == 'SubmitSm'}
    for m in sc['msgs']:
        if m.get('rcpt', 'none') == 'none' or m['log'] in timed_out:
            continue
        n = len(per_log.get(m['log'], []))
        if n > 1 and not sc.get('duplicate'):
            return 'message %s got %d attributed receipts' % (m['log'], n)
        if n == 0:
            return 'message %s (accepted, receipt plan %s%s) never got an attributed receipt' % (
                m['log'], m['rcpt'], ', segmented' if m['seg'] else '')
    return None


def receipt_case(sc):
    ev = run(sc)
    fail = receipt_predicate(sc, ev)
    pub = {k: v for k, v in sc.items() if not k.startswith('_')}
    sig = ('session-receipts', sc['hook'], sc['unknown'], sc['duplicate'],
           tuple(sorted({(m['rcpt'], m['seg']) for m in sc['msgs']}))[:4])
    line = '# session-receipts %r' % (pub,)
    return Case(line, line, sig, fail, {'op': 'session-receipts', 'sc': pub})


def generate_receipts(rng, n):
    for _ in range(n):
        yield receipt_case(receipt_scenario(rng))


def predicate13(sc, ev):
    """C13 at session level: distinct sequence numbers on the wire; a response handed over with a log_id carries the
    log_id of the message whose request went out under that sequence number (and of no other message)"""
    ended = [e for e in ev if e[1] == 'start-ended']
    if not ended or ended[0][2] is not None:
        return 'start() %s' % ('still running' if not ended else 'ended with %s' % ended[0][2])
    seen_seq = {}
    for e in ev:
        if e[1] == 'rx' and e[3] == 4:
            if e[4] in seen_seq:
                return 'two submit_sm on the wire carry sequence number %d (at %.3f and %.3f)' % (e[4], seen_seq[e[4]], e[0])
            seen_seq[e[4]] = e[0]
    seq_log = dict(sc.get('_seq_log', {}))
    answered = set()
    stray = {e[2] for e in ev if e[1] == 'stray-fed'}
    for e in ev:
        if e[1] == 'received' and e[2] in ('SubmitSmResp', 'GenericNack') and e[4]:
            seq = struct.unpack('!I', e[3][12:16])[0]
            if seq in stray:
                return ('the response with sequence number %d, which answers a submit_sm whose transmission had failed (reported by '
                        'send_error, never stored as outstanding), was attributed to message %s' % (seq, e[4]))
            if seq_log.get(seq) != e[4]:
                return 'the response with sequence number %d was attributed to message %s; the request with that number belongs to %s' % (
                    seq, e[4], seq_log.get(seq))
            if seq in answered:
                return 'two responses with sequence number %d were attributed to message %s' % (seq, e[4])
            answered.add(seq)
    return None


def predicate14(sc, ev):
    """C14 at session level: a message is reported as timed out at most once, and never when it has another outcome (an
    attributed response, or a send_error of another kind: a message whose transmission failed was never sent); an
    unanswered unsegmented message is reported neither before its time-to-live nor later than the keep-alive allows"""
    ended = [e for e in ev if e[1] == 'start-ended']
    if not ended or ended[0][2] is not None:
        return 'start() %s' % ('still running' if not ended else 'ended with %s' % ended[0][2])
    per = {}
    for e in ev:
        if e[1] == 'received' and e[2] in ('SubmitSmResp', 'GenericNack') and e[4]:
            per.setdefault(e[4], []).append('resp')
        elif e[1] == 'send_error' and e[2] == 'SubmitSm':
            per.setdefault(e[3], []).append(e[4])
    again = (sc.get('again') or {})
    for log, outs in per.items():
        n_to = outs.count('TimeoutError')
        allowed = 2 if (again.get('mode') == 'same' and again.get('log') == log) else 1
        if n_to > allowed:
            return 'message %s was reported as timed out %d times' % (log, n_to)
        if n_to and len(outs) > allowed:
            return 'message %s was reported as timed out although it has another outcome: %s' % (log, outs)
    seq_log = dict(sc.get('_seq_log', {}))
    # a request the SMSC answered at once (accepted, rejected, throttled, nacked - whatever the answer looks like on the wire,
    # with or without a body) is not reported as timed out: the answer was fed to an undisturbed session long before the
    # time-to-live
    if not sc.get('drops') and not sc.get('stalls') and not sc.get('drop_at') and sc.get('hook') == 'none' \
            and not sc.get('put_hook') and not sc.get('again'):
        for m in sc['msgs']:
            if m['react'] not in ('ok', 'reject', 'throttle', 'nack') or m['seg']:
                continue
            if 'TimeoutError' in per.get(m['log'], []):
                return 'message %s, which the SMSC answered at once (%s), was reported as timed out' % (m['log'], m['react'])
    if not sc.get('drops') and not sc.get('stalls'):
        for m in sc['msgs']:
            if m['react'] != 'silent' or m['seg']:
                continue
            seqs = [q for q, lg in seq_log.items() if lg == m['log']]
            t_put = [e[0] for e in ev if e[1] == 'put-done' and e[3] in seqs]
            t_err = [e[0] for e in ev if e[1] == 'send_error' and e[3] == m['log'] and e[4] == 'TimeoutError']
            if t_put and t_err and t_err[0] - t_put[0] < TTL - 1e-6:
                return 'message %s reported as timed out %.3f s after it was stored, time-to-live %.1f' % (m['log'], t_err[0] - t_put[0], TTL)
    # ... and no later than the first request the ESME sends after the time-to-live has elapsed - whatever request that is:
    # a submit_sm, a keep-alive probe, the bind request of a reconnect, the unbind of stop()
    if sc.get('hook') == 'none' and not sc.get('put_hook') and not sc.get('stalls'):
        requests = ('SubmitSm', 'EnquireLink', 'Unbind', 'BindTransceiver', 'BindTransmitter', 'BindReceiver')
        for m in sc['msgs']:
            if m['react'] != 'silent' or m['seg']:
                continue
            seqs = [q for q, lg in seq_log.items() if lg == m['log']]
            t_put = [e[0] for e in ev if e[1] == 'put-done' and e[3] in seqs]
            if not t_put:
                continue
            t_exp = t_put[0] + TTL
            nxt = [e for e in ev if e[1] == 'put-start' and e[0] > t_exp + 1e-6]
            sent = [e for e in ev if e[1] == 'sending' and e[2] in requests and e[0] > t_exp + 1e-6]
            t_err = [e[0] for e in ev if e[1] == 'send_error' and e[3] == m['log'] and e[4] == 'TimeoutError']
            if sent and (not t_err or t_err[0] > sent[0][0] + 1e-3):
                # the request was written; was it also handed to the correlator (a failed write is not "sent")?
                # (a write the peer answers by resetting the connection raises out of the send: the request never reaches
                # the correlator, the sender ends, and the sweep comes with the bind request of the reconnect)
                done = [e for e in ev if e[1] == 'write' and e[0] >= sent[0][0] - 1e-9 and e[0] <= sent[0][0] + 1e-3]
                handed = [e for e in ev if e[1] == 'put-start' and e[3] == sent[0][3] and e[0] <= sent[0][0] + 1e-3]
                raised = [e for e in ev if e[1] == 'send_error' and e[4] != 'TimeoutError' and abs(e[0] - sent[0][0]) <= 1e-3]
                if not handed and raised:
                    done = []       # the send itself failed (reported as such): not a request that was sent
                if done:
                    return ('message %s outlived its time-to-live at %.3f; the next request (%s at %.3f) was sent without the '
                            'time-out being reported (reported: %s)' % (m['log'], t_exp, sent[0][2], sent[0][0], t_err[:1] or 'never'))
    return None


def wire_text_check(sc):
    """every submit_sm on the wire that belongs to an unsegmented message with a text outside the GSM alphabet announces
    UCS2 and carries the UTF-16-BE octets of the text - the first time and every time it is sent again"""
    from corr.c08 import parse_submit_full
    seq_log = {int(k): v for k, v in dict(sc.get('_seq_log', {})).items()}
    ucs = {m['log'] for m in sc['msgs'] if m.get('ucs') and not m['seg'] and not m.get('odd')}
    want = 'Zo\xeb says hi \u2713'
    for h in sc.get('_wire', []):
        p = bytes.fromhex(h)
        seq = struct.unpack('!I', p[12:16])[0]
        log = seq_log.get(seq)
        if log is None or log.rstrip('c') not in ucs:
            continue
        try:
            g = parse_submit_full(p)
            got = g['sm'].decode('utf-16-be') if g['dc'] == 8 else None
        except Exception as e:      # noqa
            return 'a submit_sm of message %s cannot be read (%r)' % (log, e)
        if got != want:
            return 'message %s (text outside the GSM alphabet) went out with data_coding %d and octets %s' % (log, g['dc'], g['sm'].hex()[:40])
    return None


def case_of(sc, which='ledger'):
    ev = run(sc)
    if which == 'c13':
        fail, kind = predicate13(sc, ev), None
    elif which == 'c14':
        fail, kind = predicate14(sc, ev), None
    else:
        fail, kind = predicate(sc, ev)
    if fail is None:
        fail = wire_text_check(sc)
    sig = ('session-ledger', sc['hook'], sc['stalls'], sc['drops'] + len(sc.get('drop_at', ())), sc['put_hook'],
           tuple(sorted({(m['react'], m['seg']) for m in sc['msgs']}))[:4], (sc.get('again') or {}).get('mode'))
    pub = {k: v for k, v in sc.items() if not k.startswith('_')}
    line = '# session-ledger %r' % (pub,)
    return Case(line, line, sig, fail, {'op': 'session', 'sc': pub, 'kind': kind, 'which': which})


def generate(rng, n, again=None, which='ledger'):
    for _ in range(n):
        yield case_of(scenario(rng, again), which)
