"""C08 — segmentation: correspondence (split_sms / split_sms_udh / UCS2 codec) and the
independent-receiver predicate."""
import asyncio
from vlib import Case, nats, hexs, exc_name
from spec import gsm as spec

ID = 'C08'
TARGETS = ['SmppVerif.Props.C08']
THOROUGH_ROUNDS = 3
RULE = ('both splitters x {auto, gsm0338, ucs2} x references {0,1,255,256,65535}: every length around 0, the single-part '
        'limit and 1..3 segment boundaries (-3..+3) over {GSM basic, GSM extension, BMP, astral} fillers with a '
        'two-unit character (extension / astral) at every offset -3..+2 of every boundary, long texts up to >255 parts, '
        'seeded random mixes; UCS2 codec on lone surrogates and odd octet strings. distinct-nontrivial = distinct '
        '(function, encoding arg, alphabet used, reference width, number of parts bucket, last-chunk short?, '
        'boundary-adjustment happened?, outcome class)')
TRUSTED = ['Lean 4.33.0 kernel', 'axioms: propext, Quot.sound, Classical.choice',
           'tools/extract.py (MAX_* constants, IE ids, GSM tables)',
           'CPython utf_16_be_encode/decode (modelled, swept, not verified)',
           'tools/corr/c08.py + Driver.lean line protocol']
ASSUMPTIONS = ['the UCS2 path is modelled on UTF-16 code units (the code chunks octets with even chunk sizes)',
               'the index loop is modelled on the remaining cells',
               'csms_ref=None (random reference) is not modelled; the ESME always passes a reference',
               'encodings other than gsm0338 are sent down the UCS2 path by the code; the model does the same']
EXHAUSTIVE = {'quick': False, 'thorough': False}

ENC_ARG = {'auto': '', 'gsm': 'gsm0338', 'other': 'ucs2'}


def receiver_check(fn, enc, ref, text, parts):
    """independent receiver: returns None or a failure description"""
    gsm = all(ch in spec.ALPHABET for ch in text) if enc == 'auto' else (enc == 'gsm')

    def dec(payload):
        if gsm:
            return spec.decode(payload)
        try:
            return bytes(payload).decode('utf-16-be')
        except UnicodeDecodeError:
            return None
    if len(parts) == 1:
        p = parts[0]
        if p[0] != len(p) - 1:
            return 'single part: length prefix wrong'
        if dec(p[1:]) != text:
            return 'single part does not decode to the text'
        limit_ok = (len(p) - 1 <= 254) if fn == 'sar' else ((len(p) - 1 <= 160) if gsm else (len(p) - 1 <= 140))
        if not limit_ok:
            return 'text reported as fitting one short message does not fit'
        return None
    if len(parts) > 255 and fn == 'udh':
        # (split_sms has no cap of its own: the one-octet sar_total_segments TLV rejects > 255 at pdu() time)
        return 'more than 255 segments emitted'
    texts = []
    seqs = []
    for i, p in enumerate(parts):
        if fn == 'sar':
            payload = p
            if len(p) > 254:
                return 'segment %d has %d octets (> 254)' % (i + 1, len(p))
        else:
            udhl = p[0]
            hdr = p[1:1 + udhl]
            payload = p[1 + udhl:]
            if len(hdr) != udhl or udhl < 5:
                return 'segment %d: truncated UDH' % (i + 1)
            if hdr[0] == 0x00 and hdr[1] == 3 and udhl == 5:
                r, tot, seq = hdr[2], hdr[3], hdr[4]
                if ref > 255:
                    return '8-bit header used for a 16-bit reference'
            elif hdr[0] == 0x08 and hdr[1] == 4 and udhl == 6:
                r, tot, seq = hdr[2] * 256 + hdr[3], hdr[4], hdr[5]
            else:
                return 'segment %d: not a concatenation UDH' % (i + 1)
            if r != ref or tot != len(parts):
                return 'segment %d: reference/total wrong (%d,%d)' % (i + 1, r, tot)
            seqs.append(seq)
            if gsm:
                hdr_septets = ((udhl + 1) * 8 + 6) // 7
                if hdr_septets + len(payload) > 160:
                    return 'segment %d: %d septets with header (> 160)' % (i + 1, hdr_septets + len(payload))
            elif len(p) > 140:
                return 'segment %d: %d octets (> 140)' % (i + 1, len(p))
        if gsm and payload and payload[-1] == spec.ESC:
            return 'segment %d ends inside a GSM escape pair' % (i + 1)
        if not gsm and len(payload) >= 2 and 0xD8 <= payload[-2] <= 0xDB:
            return 'segment %d ends inside a surrogate pair' % (i + 1)
        t = dec(payload)
        if t is None:
            return 'segment %d is not decodable on its own' % (i + 1)
        texts.append(t)
    if fn == 'udh' and seqs != list(range(1, len(parts) + 1)):
        return 'sequence numbers are not 1..total: %r' % seqs[:10]
    if ''.join(texts) != text:
        return 'reassembled text differs from the original'
    return None


_SPLIT_TURN = [0]


def split_case(fn, enc, ref, text):
    from aiosmpplib.utils import split_sms, split_sms_udh
    fail = None
    # the splitters are functions of their arguments: every third text has been through the codecs before (both GSM codecs
    # and the UCS2 codec, as when the same text was sent earlier with another encoding name) - the segments must not care
    _SPLIT_TURN[0] += 1
    if _SPLIT_TURN[0] % 3 == 0:
        from aiosmpplib.codec import find_codec_info
        for nm in ('gsm0338_packed', 'gsm0338', 'ucs2', 'gsm0338_packed'):
            for eh in ('strict', 'replace'):
                try:
                    find_codec_info(nm).encode(text, eh)
                except Exception:      # noqa
                    pass
    try:
        if fn == 'sar':
            parts = split_sms(text, ENC_ARG[enc])
        else:
            parts = split_sms_udh(text, ENC_ARG[enc], ref)
        out = 'ok ' + '|'.join(hexs(p) for p in parts)
        fail = receiver_check(fn, enc, ref, text, parts)
    except Exception as e:      # noqa
        parts = None
        out = 'exc ' + exc_name(e)
    gsm = all(ch in spec.ALPHABET for ch in text) if enc == 'auto' else (enc == 'gsm')
    n = 0 if parts is None else len(parts)
    adj = False
    if parts and n > 1:
        lens = set(len(p) for p in parts[:-1])
        adj = len(lens) > 1
    sig = (fn, enc, gsm, ref > 255, min(n, 4) if n < 200 else 255, adj,
           out[:3] if out.startswith('ok') else out)
    line = ('split.sar %s %s' % (enc, nats(text))) if fn == 'sar' else \
           ('split.udh %s %d %s' % (enc, ref, nats(text)))
    return Case(line, out, sig, fail, {'op': fn, 'enc': enc, 'ref': ref, 'text': [ord(c) for c in text]})


def u16_case(op, mode, arg):
    from aiosmpplib.codec import find_codec_info
    c = find_codec_info('ucs2')
    try:
        if op == 'enc':
            out = 'ok ' + hexs(c.encode(arg, mode)[0])
        else:
            out = 'ok ' + nats(c.decode(bytes(arg), mode)[0])
    except Exception as e:      # noqa
        out = 'exc ' + exc_name(e)
    if op == 'enc':
        return Case('u16.enc %s %s' % (mode, nats(arg)), out, ('u16enc', mode, out[:6]), None,
                    {'op': 'u16enc', 'mode': mode, 'text': [ord(c) for c in arg]})
    return Case('u16.dec %s %s' % (mode, hexs(arg)), out, ('u16dec', mode, len(arg) % 2, out[:6]), None,
                {'op': 'u16dec', 'mode': mode, 'hex': bytes(arg).hex()})


FILL = {'b': 'a', 'x': '€', 'u': 'ж', 'A': '\U0001F600'}
TWO = {'b': '[', 'x': '{', 'u': '\U0001F601', 'A': '\U0001F602'}


def units(ch, gsm):
    if gsm:
        return 1 if ch in spec.BASIC_ENC else 2
    return 2 if ord(ch) > 0xFFFF else 1


def text_of_units(fill, n_units, gsm, two_at=None, two_ch=None):
    """text whose encoded length is n_units cells, made of `fill`, with the two-cell character
    `two_ch` starting at cell offset two_at"""
    out = []
    pos = 0
    fu = units(fill, gsm)
    while pos < n_units:
        if two_at is not None and pos == two_at and pos + units(two_ch, gsm) <= n_units:
            out.append(two_ch)
            pos += units(two_ch, gsm)
        elif pos + fu <= n_units and not (two_at is not None and pos < two_at < pos + fu):
            out.append(fill)
            pos += fu
        else:
            out.append('b' if gsm else 'q')
            pos += 1
    return ''.join(out)


def parse_submit_full(p):
    """independent reading of a submit_sm PDU: mandatory fields in order, short_message octets, TLVs in order"""
    import struct
    i = 16
    out = {}

    def cstr():
        nonlocal i
        j = p.index(b'\x00', i)
        v = p[i:j]
        i = j + 1
        return v
    out['service_type'] = cstr()
    out['src'] = (p[i], p[i + 1])
    i += 2
    out['src_addr'] = cstr()
    out['dst'] = (p[i], p[i + 1])
    i += 2
    out['dst_addr'] = cstr()
    out['esm'], out['pid'], out['prio'] = p[i], p[i + 1], p[i + 2]
    i += 3
    out['sched'] = cstr()
    out['valid'] = cstr()
    out['reg'], out['repl'], out['dc'], out['defid'] = p[i], p[i + 1], p[i + 2], p[i + 3]
    i += 4
    ln = p[i]
    i += 1
    out['sm'] = p[i:i + ln]
    i += ln
    tlvs = []
    while i + 4 <= len(p):
        tag, tl = struct.unpack('!HH', p[i:i + 4])
        tlvs.append((tag, p[i + 4:i + 4 + tl]))
        i += 4 + tl
    out['tlvs'] = tlvs
    return out


SAR_TAGS = (0x020C, 0x020E, 0x020F)


def session_segments_case(rng, forced=None):
    """a message with options, addressing and application parameters of its own, segmented by the real Sender (SAR or
    UDH): an independent receiver reads the PDUs written.  Every segment must carry the message's addressing and options
    and its application parameters exactly once, the segmentation data (same reference, same total <= 255, sequence
    numbers 1..total once each) exactly once, and the payloads decoded and concatenated must be the text.  No model line
    (the PDU-level model of the sender is tied by C06): predicate only."""
    import struct
    from aiosmpplib.protocol import SubmitSm
    from aiosmpplib.state import OptionalParam, PhoneNumber, TON, NPI
    from corr import c06
    udh = rng.random() < 0.5
    gsm = rng.random() < 0.5
    if forced:
        udh, gsm = forced[0], forced[1]
    alphabet = sorted(spec.ALPHABET - {'\x1b'}) if gsm else list('жяблоко мир') + ['\U0001F600', 'a', '€']
    n = rng.choice((200, 300, 460, 700, 1500))
    text = ''.join(rng.choice(alphabet) for _ in range(n))
    params = []
    if rng.random() < 0.8:
        params.append(OptionalParam(0x0204, rng.randrange(65536)))            # user_message_reference
    if rng.random() < 0.5:
        params.append(OptionalParam(0x0201, rng.randrange(256)))              # privacy_indicator
    if rng.random() < 0.3:
        params.append(OptionalParam(0x130C, True))                            # alert_on_message_delivery
    kw = dict(short_message=text, auto_message_payload=False, log_id='seg', optional_params=params,
              source=PhoneNumber('4477%d' % rng.randrange(1000), TON.INTERNATIONAL, NPI.ISDN),
              destination=PhoneNumber('38591%d' % rng.randrange(1000), TON.NATIONAL, NPI.ISDN),
              service_type=rng.choice(('', 'CMT', 'WAP')), protocol_id=rng.choice((0, 0x7F)),
              priority_flag=rng.choice((0, 1, 3)), registered_delivery=rng.choice((0, 1, 17)),
              esm_class=(0x40 if udh else 0) | rng.choice((0, 3, 0x80, 0x83, 0x04)))
    # what the application does while the Sender is at work on this message: nothing; or its sending hook takes its time
    # (1.2 s per PDU - a throttled or rate-limited sender waits like that between segments) and the message carries relative
    # times; or the hook, having seen the first PDU go out, re-targets the message object for its next use
    app = rng.choice(('idle', 'idle', 'slow', 'reuse'))
    if forced and len(forced) > 4:
        app = forced[4]
    from datetime import timedelta
    if app == 'slow':
        kw['validity_period'] = timedelta(hours=1)
        kw['schedule_delivery_time'] = timedelta(minutes=10)
    m = SubmitSm(**kw)
    seen_first = []

    async def on_sending(msg_, pdu_):
        if getattr(msg_, 'log_id', '') != m.log_id:
            return
        if app == 'slow':
            await asyncio.sleep(1.2)
        elif app == 'reuse' and not seen_first:
            seen_first.append(1)
            await asyncio.sleep(0.05)
            m.service_type = 'XYZ'
            m.protocol_id = 0x33
            m.destination = PhoneNumber('999', TON.NATIONAL, NPI.ISDN)
    n_own = len(params)
    # the Sender task has handled another message before (of the other alphabet / the other segmentation method, as it
    # happens): what it did for that one must not show in this one
    prev_kind = rng.choice(('none', 'udh-ucs2', 'udh-gsm', 'sar-ucs2', 'sar-gsm', 'plain'))
    if forced:
        prev_kind = forced[2]
    batch = []
    if prev_kind != 'none':
        ptext = {'ucs2': 'привет ' * rng.choice((1, 30)), 'gsm': 'hello ' * rng.choice((1, 40))}.get(
            prev_kind.split('-')[-1], 'hi')
        batch.append(SubmitSm(short_message=ptext, auto_message_payload=prev_kind == 'plain', log_id='prev',
                              esm_class=0x40 if prev_kind.startswith('udh') else 0))
    batch.append(m)
    # ... and where its 0..255 reference generator stands: the references around the wrap (254, 255, 0) included
    want_ref = rng.choice((None, None, 253, 254, 255, 0))         # the reference this message is to draw
    if forced and len(forced) > 3:
        want_ref = forced[3]
    ref_start = None if want_ref is None else (want_ref - 1 - (1 if prev_kind not in ('none', 'plain') else 0)) % 256
    obs = c06.batch(batch, 'gsm0338', ref_start=ref_start, on_sending=None if app == 'idle' else on_sending,
                    settle={'idle': 0.002, 'slow': 40.0, 'reuse': 1.0}[app])
    obs = obs[len(batch) - 1:] if obs and len(obs) >= len(batch) else []
    fail = None
    written = obs[0]['written'] if obs else []
    if not obs or obs[0]['errors'] or not written:
        fail = 'the message was not transmitted (%s)' % (obs[0]['errors'] if obs else 'no observation')
    else:
        segs = []
        for p in written:
            try:
                segs.append(parse_submit_full(p))
            except Exception as e:      # noqa
                fail = 'a segment cannot be read by an independent parser (%r)' % (e,)
                break
        if fail is None:
            for k, g in enumerate(segs):
                if (g['src_addr'], g['dst_addr'], g['src'], g['dst']) != (
                        kw['source'].number.encode(), kw['destination'].number.encode(),
                        (int(kw['source'].ton), int(kw['source'].npi)), (int(kw['destination'].ton), int(kw['destination'].npi))):
                    fail = 'segment %d carries other addressing than the message' % (k + 1)
                elif (g['service_type'], g['pid'], g['prio'], g['reg']) != (kw['service_type'].encode(), kw['protocol_id'],
                                                                          kw['priority_flag'], kw['registered_delivery']):
                    fail = 'segment %d carries other options than the message' % (k + 1)
                elif g['esm'] & 0x3F != kw['esm_class'] & 0x3F:
                    fail = 'segment %d: esm_class %02x, message %02x' % (k + 1, g['esm'], kw['esm_class'])
                elif (g['sched'], g['valid']) != ((b'000000001000000R', b'000000010000000R') if app == 'slow' else (b'', b'')):
                    fail = 'segment %d carries schedule_delivery_time %r / validity_period %r, the message has %s' % (
                        k + 1, g['sched'], g['valid'], '10 minutes / 1 hour (relative)' if app == 'slow' else 'none')
                own = [(t, v) for t, v in g['tlvs'] if t not in SAR_TAGS]
                want = []
                for q in params:
                    if q.tag == 0x130C:
                        want.append((q.tag, b''))
                    elif q.tag == 0x0204:
                        want.append((q.tag, struct.pack('!H', q.value)))
                    else:
                        want.append((q.tag, bytes([q.value])))
                if fail is None and own != want:
                    fail = 'segment %d carries the application parameters %s, the message has %s' % (
                        k + 1, [(hex(t), v.hex()) for t, v in own], [(hex(t), v.hex()) for t, v in want])
                if fail:
                    break
        if fail is None and len(segs) > 1:
            infos = []
            payloads = []
            for k, g in enumerate(segs):
                sar = [(t, v) for t, v in g['tlvs'] if t in SAR_TAGS]
                if g['esm'] & 0x40:
                    sm = g['sm']
                    if len(sm) < 6 or sm[0] + 1 > len(sm) or sm[1] not in (0, 8) or sar:
                        fail = 'segment %d: unexpected user data header %s / SAR parameters %d' % (k + 1, sm[:7].hex(), len(sar))
                        break
                    if sm[1] == 0:
                        infos.append((sm[3], sm[4], sm[5]))
                    else:
                        infos.append((sm[3] * 256 + sm[4], sm[5], sm[6]))
                    payloads.append((g['dc'], sm[sm[0] + 1:]))
                    hdr = sm[0] + 1
                    if g['dc'] == 0:
                        # GSM alphabet: 160 septets including the header (the library sends one septet per octet)
                        if (hdr * 8 + 6) // 7 + (len(sm) - hdr) > 160:
                            fail = 'segment %d has %d header octets + %d septets (limit 160 septets in all)' % (k + 1, hdr, len(sm) - hdr)
                            break
                    elif len(sm) > 140:
                        fail = 'segment %d has %d octets of short_message with a UDH (limit 140)' % (k + 1, len(sm))
                        break
                else:
                    d = dict(sar)
                    if len(sar) != 3 or len(d) != 3:
                        fail = 'segment %d carries %d SAR parameters (%s)' % (k + 1, len(sar), sorted(hex(t) for t, _ in sar))
                        break
                    infos.append((int.from_bytes(d[0x020C], 'big'), d[0x020E][0], d[0x020F][0]))
                    payloads.append((g['dc'], g['sm']))
                    if len(g['sm']) > 254:
                        fail = 'segment %d has %d octets of short_message (limit 254)' % (k + 1, len(g['sm']))
                        break
            if fail is None:
                tot = len(segs)
                if len({r for r, _t, _q in infos}) != 1:
                    fail = 'segments carry different reference numbers %s' % sorted({r for r, _t, _q in infos})
                elif any(t != tot for _r, t, _q in infos) or tot > 255:
                    fail = 'segments announce totals %s, %d were sent' % (sorted({t for _r, t, _q in infos}), tot)
                elif sorted(q for _r, _t, q in infos) != list(range(1, tot + 1)):
                    fail = 'segment sequence numbers are %s' % [q for _r, _t, q in infos]
                else:
                    ordered = [pl for _q, pl in sorted(zip([q for _r, _t, q in infos], payloads))]
                    got = ''
                    for dc, data in ordered:
                        if dc == 0:
                            t = spec.decode(data)
                        elif dc == 8:
                            try:
                                t = data.decode('utf-16-be')
                            except UnicodeDecodeError:
                                t = None
                        else:
                            t = None
                        if t is None:
                            fail = 'a segment payload does not decode on its own under data_coding %d' % dc
                            break
                        got += t
                    if fail is None and got != text:
                        fail = 'reassembled text differs from the text submitted (%d vs %d characters)' % (len(got), len(text))
    line = '# session-segments udh=%d gsm=%d n=%d params=%d prev=%s app=%s' % (udh, gsm, n, n_own, prev_kind, app)
    return Case(line, line, ('session-seg', udh, gsm, min(len(written), 4), n_own, prev_kind), fail,
                {'op': 'session-seg', 'udh': udh, 'gsm': gsm, 'n': n, 'previous message': prev_kind, 'application meanwhile': app, 'reference drawn': want_ref,
                 'note': 'random text; re-run the check with the same seed'})


def generate(rng, tier):
    thorough = tier == 'thorough'
    for _ in range(60 if thorough else 16):
        yield session_segments_case(rng)
    # every (method, alphabet) after every kind of previous message
    for udh in (False, True):
        for gsm in (False, True):
            for prev in ('udh-ucs2', 'udh-gsm', 'sar-ucs2', 'sar-gsm'):
                yield session_segments_case(rng, (udh, gsm, prev))
            # the message that draws reference 255, and the one after the wrap
            for rs in (255, 0):
                yield session_segments_case(rng, (udh, gsm, rng.choice(('none', 'udh-gsm')), rs))
            for app in ('slow', 'reuse'):
                yield session_segments_case(rng, (udh, gsm, 'none', None, app))
    refs = (0, 1, 255, 256, 65535)
    # (function, gsm?, ref-width) -> (single limit in cells, chunk size in cells)
    confs = []
    for gsm in (True, False):
        confs.append(('sar', gsm, 0, 254 if gsm else 127, 254 if gsm else 127))
        for ref in refs:
            if gsm:
                confs.append(('udh', gsm, ref, 160, 153 if ref < 256 else 152))
            else:
                confs.append(('udh', gsm, ref, 70, 67 if ref < 256 else 66))
    for fn, gsm, ref, single, L in confs:
        fills = ('b', 'x') if gsm else ('u', 'A', 'b')
        encs = ('auto', 'gsm') if gsm else ('auto', 'other')
        if not thorough and ref in (1, 65535):
            fills = fills[:1]
        for fill in fills:
            marks = sorted(set([0, 1, 2, single - 1, single, single + 1, single + 2]
                               + [k * L + d for k in (1, 2, 3) for d in range(-3, 4)]))
            for n in marks:
                if n < 0:
                    continue
                for enc in encs:
                    t = text_of_units(FILL[fill], n, gsm)
                    if enc == 'auto' and (all(c in spec.ALPHABET for c in t) != gsm):
                        continue
                    if t:
                        yield split_case(fn, enc, ref, t)
                    else:
                        yield split_case(fn, enc, ref, t)
            # two-cell characters around every boundary
            two = TWO['x' if gsm else 'A']
            for k in (1, 2, 3):
                for total in (k * L + 5, (k + 1) * L, (k + 1) * L + 1):
                    for off in range(-3, 3):
                        at = k * L + off
                        t = text_of_units(FILL[fill], total, gsm, at, two)
                        enc = 'auto' if all(c in spec.ALPHABET for c in t) == gsm else ('gsm' if gsm else 'other')
                        yield split_case(fn, enc, ref, t)
                        # two pairs in a row across the boundary
                        t2 = text_of_units(FILL[fill], total, gsm, at, two)
                        t2 = t2.replace(two, two + two, 1)
                        yield split_case(fn, enc, ref, t2)
    # explicit gsm0338 on a text outside the alphabet, lone surrogates
    for fn in ('sar', 'udh'):
        yield split_case(fn, 'gsm', 5, 'abcж')
        yield split_case(fn, 'gsm', 5, 'a' * 300 + 'ж')
        yield split_case(fn, 'other', 5, 'a\ud800b')
        yield split_case(fn, 'auto', 5, 'x' * 200 + '\udc00')
        yield split_case(fn, 'other', 5, 'abc')
        yield split_case(fn, 'other', 5, 'a' * 400)
    # many parts, more than 255 parts
    for n, r in ((255 * 153, 7), (255 * 153 + 1, 7), (255 * 152, 700), (255 * 152 + 1, 700)):
        yield split_case('udh', 'auto', r, 'a' * n)
    yield split_case('udh', 'auto', 9, 'ж' * (255 * 67 + 1))
    yield split_case('sar', 'auto', 0, 'a' * (254 * 256 + 1))
    yield split_case('udh', 'auto', 65536, 'a' * 200)
    yield split_case('udh', 'auto', 70000, 'a' * 100)
    # random mixes
    pool_g = sorted(spec.ALPHABET)
    pool_u = ['ж', '中', '\U0001F600', 'a', '€', '\U00010000', '￿', '퟿', '']
    for _ in range(4000 if thorough else 700):
        gsm = rng.random() < 0.5
        n = rng.choice((rng.randrange(0, 40), rng.randrange(100, 200), rng.randrange(200, 700)))
        if gsm:
            px = rng.choice((0.0, 0.1, 0.5))
            t = ''.join(rng.choice('{}[]€~|^\\') if rng.random() < px else rng.choice(pool_g) for _ in range(n))
        else:
            t = ''.join(rng.choice(pool_u) for _ in range(n))
        fn = rng.choice(('sar', 'udh'))
        yield split_case(fn, rng.choice(('auto', 'auto', 'gsm' if gsm else 'other')), rng.choice(refs), t)
    # the UCS2 codec itself
    for m in ('strict', 'ignore', 'replace'):
        for t in ('', 'a', 'ж', '\U0001F600', '\ud800', 'a\udc00b', '𐀀', '􏿿', '￿', 'a\ud83dz'):
            yield u16_case('enc', m, t)
        for h in ('', '00', '0061', '0061d8', '0061d800', 'd8000061', 'dc000061', '0061dc00', 'd800d800dc00',
                  'd800dc', 'd80000', 'd800dc00', 'dbffdfff', 'd800dc000061', 'ffff', 'd7ffe000', 'dfffd800'):
            yield u16_case('dec', m, bytes.fromhex(h))
        for _ in range(1500 if thorough else 300):
            n = rng.randrange(0, 12)
            data = bytes(rng.choice((0x00, 0x61, 0xD8, 0xDB, 0xDC, 0xDF, 0xFF, rng.randrange(256))) for _ in range(n))
            yield u16_case('dec', m, data)
            cps = [rng.choice((0x61, 0x436, 0xD800, 0xDBFF, 0xDC00, 0xDFFF, 0x10000, 0x10FFFF, 0xFFFF, rng.randrange(0x110000)))
                   for _ in range(rng.randrange(0, 6))]
            yield u16_case('enc', m, ''.join(chr(c) for c in cps))


def replay(inp):
    if inp['op'] in ('sar', 'udh'):
        return split_case(inp['op'], inp['enc'], inp['ref'], ''.join(chr(c) for c in inp['text']))
    if inp['op'] == 'u16enc':
        return u16_case('enc', inp['mode'], ''.join(chr(c) for c in inp['text']))
    return u16_case('dec', inp['mode'], bytes.fromhex(inp['hex']))


def classify(case):
    return None
