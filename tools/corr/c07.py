"""C07 — supervisor: real ESME.start()/stop() on the virtual-time loop against a scripted SMSC,
compared with the Lean supervisor model; clean-shutdown predicates on the observed run."""
import asyncio
import json
from vlib import Case
from sim.simlib import Sim, pdu

ID = 'C07'
TARGETS = ['SmppVerif.Props.C07']
THOROUGH_ROUNDS = 8
RULE = ('fault scripts of 1..9 connect cycles drawn from: connection refused / unreachable / hanging; bind answered with each of '
        'several error statuses, with a PDU of the wrong type, with an unusable header, not at all, by EOF, by reset; sessions of '
        'random length with slow connection set-up, ended by EOF, reset, unbind from the SMSC or an unusable header; stop() at a '
        'random moment (before the first connect, during a hanging connect, while waiting for the bind answer, while bound, in the '
        'grace period after a session, during back-off) or never; all three bind modes; back-off (min 250/1000 ms, 0..5 '
        'doublings); SMSC answering / ignoring the unbind. Observed connect, bound, unbind and return times are compared with the '
        'model. distinct-nontrivial = distinct (bind mode, back-off parameters, multiset of outcome kinds, where stop() fell, '
        'unbind answered?)')
TRUSTED = ['Lean 4.33.0 kernel', 'axioms: propext, Quot.sound, Classical.choice',
           'tools/sim/simlib.py (virtual-time loop, in-memory transport, scripted SMSC)',
           'asyncio (wait_for, wait, Task cancellation) is not modelled: a cycle outcome is summarised by its duration']
ASSUMPTIONS = ['hooks return; the broker dequeue blocks (no traffic) during these runs',
               'task grace: a pending task is cancelled 0.5 s after the session ended (constant in esme.py, read by the harness)']
EXHAUSTIVE = {'quick': False, 'thorough': False}

S = 5.0          # socket_timeout of the runs
I = 60.0         # enquire_link_interval: larger than any scripted session, the keeper stays out of the way
GRACE = 1.0      # two pending tasks, 0.5 s each


def ms(t):
    return int(round(t * 10000))          # model time unit: 0.1 ms


def gen_script(rng):
    n = rng.randrange(1, 10)
    out = []
    for _ in range(n):
        k = rng.randrange(14)
        if k == 0:
            out.append(('refuse',))
        elif k == 1:
            out.append(('oserror',))
        elif k == 2:
            out.append(('hang',))
        elif k == 3:
            out.append(('status', rng.choice((13, 14, 15, 8, 0x58, 0xFF))))
        elif k == 4:
            out.append(('wrong', rng.choice((0x80000015, 0x80000004, 0x80000000))))
        elif k == 5:
            out.append(('garbage',))
        elif k == 6:
            out.append(('silent',))
        elif k == 7:
            out.append(('bind-eof',))
        elif k == 8:
            out.append(('bind-reset',))
        else:
            out.append(('session', rng.choice((0.0, 0.0, 1.5, 3.0)), rng.choice((0.5, 2.0, 7.25, 20.0)),
                        rng.choice(('eof', 'reset', 'unbind', 'badheader'))))
    return out


def model_outcomes(script):
    res = []
    for o in script:
        k = o[0]
        if k in ('refuse', 'oserror'):
            res.append('cf:0')
        elif k == 'hang':
            res.append('cf:%d' % ms(S))
        elif k in ('status', 'wrong', 'garbage', 'bind-eof', 'bind-reset'):
            res.append('bf:0')
        elif k == 'silent':
            res.append('bf:%d' % ms(S))
        else:
            # a PDU from the peer wakes the keeper, which then sees the closed session and ends by itself: one
            # pending task (0.5 s) instead of two
            res.append('se:%d:%d:%d' % (ms(o[1]), ms(o[2]), ms(0.5 if o[3] == 'unbind' else GRACE)))
    return res


def run_script(script, stop_at, mode, bo, unbind_answer, horizon, traffic=()):
    from aiosmpplib.state import BindMode
    from aiosmpplib.retrytimer import SimpleExponentialBackoff
    s = Sim(enquire_link_interval=I, socket_timeout=S, bind_mode=getattr(BindMode, mode),
            retry_timer=SimpleExponentialBackoff(bo[0], bo[1]))
    try:
        def outcome(n):
            return script[n] if n < len(script) else ('refuse',)
        s.smsc.connect = lambda n: {'refuse': 'refuse', 'oserror': 'oserror', 'hang': 'hang'}.get(outcome(n)[0], 'ok')
        orig_open = s.smsc.open_connection

        async def open_connection(*a, **kw):
            n = len([e for e in s.events if e[1] == 'connect'])
            o = outcome(n)
            if o[0] == 'session' and o[1] > 0:
                s.ev('connect-begin', n)
                await asyncio.sleep(o[1])
            return await orig_open(*a, **kw)
        asyncio.open_connection = open_connection

        def bind(n):
            o = outcome(n)
            k = o[0]
            if k == 'status':
                return ('resp', o[1])
            if k == 'wrong':
                return ('wrong', o[1])
            if k == 'garbage':
                return ('raw', b'\x00\x00\x00\x10\x12\x34\x56\x78\x00\x00\x00\x00\x00\x00\x00\x01')
            if k == 'silent':
                return 'silent'
            if k == 'bind-eof':
                return 'eof'
            if k == 'bind-reset':
                return 'reset'
            if k == 'session':
                conn = s.smsc.conns[-1]
                how = o[3]

                def end():
                    if conn.closed:
                        return
                    if how == 'eof':
                        conn.feed_eof()
                    elif how == 'reset':
                        conn.reset()
                    elif how == 'unbind':
                        conn.feed(pdu(6, 0, 777))
                    else:
                        conn.feed(b'\x00\x00\x00\x10\xde\xad\xbe\xef\x00\x00\x00\x00\x00\x00\x00\x01')
                s.smsc.later(o[2], end)
                return ('resp', 0)
            return ('resp', 0)
        s.smsc.bind = bind
        # the application goes on queueing messages whatever the link does (sent, discarded in receiver mode, or handed to
        # send_error): none of it may change what the supervisor does
        from aiosmpplib.protocol import SubmitSm
        for t_q, kind in traffic:
            m = {'plain': lambda: SubmitSm(short_message='hello', log_id='t'),
                 'nocodec': lambda: SubmitSm(short_message='hello', encoding='nosuchcodec', log_id='t'),
                 'long': lambda: SubmitSm(short_message='x' * 400, auto_message_payload=False, log_id='t')}[kind]()
            s.at(t_q, s.enqueue, m)
        s.smsc.unbind_answer = unbind_answer
        s.smsc.close_on_eof = unbind_answer
        if stop_at is not None and stop_at > 0:
            s.at(stop_at, s.stop)
        res = s.run(horizon, stop_first=(stop_at == 0))
        ev = list(s.events)
        conns = [(c.idx, c.closed, c.eof_written, [p[4:8] for p in c.pdus]) for c in s.smsc.conns]
        state = s.esme.session_state.name
    finally:
        s.close()
    return res, ev, conns, state


def backoff_predicate(script, connects, bound, bo, stop_at):
    """the back-off law from the property, on the observed attempt times: within a streak of consecutive failures the
    delay before the next attempt starts at no more than min, doubles up to the cap; it starts over after a bind"""
    mn, cap = bo[0] / 1000.0, bo[0] * 2 ** bo[1] / 1000.0
    prev = None          # previous delay in the current streak
    for i, o in enumerate(script):
        if i + 1 >= len(connects):
            break
        if stop_at is not None and connects[i + 1] >= stop_at:
            break
        if o[0] == 'session':
            prev = 'bound'
            continue
        dur = {'hang': S, 'silent': S}.get(o[0], 0.0)
        d = connects[i + 1] - connects[i] - dur
        if prev is None or prev == 'bound':
            if d > mn + 1e-6:
                return 'first retry delay %.3f s exceeds the minimum %.3f' % (d, mn)
        else:
            want = mn if prev < 1e-9 else min(2 * prev, cap)
            if abs(d - want) > 1e-6:
                return 'retry delay %.3f s after a delay of %.3f s (min %.3f, cap %.3f): expected %.3f' % (d, prev, mn, cap, want)
        prev = d
    return None


def case_of(rng):
    script = gen_script(rng)
    mode = rng.choice(('TRANSCEIVER', 'TRANSCEIVER', 'TRANSMITTER', 'RECEIVER'))
    bo = (rng.choice((250, 1000)), rng.choice((0, 1, 2, 5)))
    cap = bo[0] * 2 ** bo[1] / 1000.0
    # duration of the scripted part, to place stop()
    total = 0.0
    for o in script:
        total += {'hang': S, 'silent': S}.get(o[0], 0.0) + (o[1] + o[2] + GRACE if o[0] == 'session' else 0.0) + cap
    # stop() never falls on the very instant of another event (sub-millisecond offset): same-instant orderings
    # depend on callback order, which the model does not describe
    stop_at = None if rng.random() < 0.15 else round(rng.uniform(0, total), 3) + 0.0007
    if stop_at is not None and rng.random() < 0.1:
        stop_at = rng.choice((0.0007, 0))         # 0: stop() before start() takes its first step
    unbind_answer = rng.random() < 0.8
    traffic = []
    if rng.random() < 0.5:
        for _ in range(rng.randrange(1, 5)):
            traffic.append((round(rng.uniform(0.0, max(total, 1.0)), 3) + 0.0003, rng.choice(('plain', 'plain', 'nocodec', 'long'))))
    return make_case(script, stop_at, mode, bo, unbind_answer, sorted(traffic))


def make_case(script, stop_at, mode, bo, unbind_answer, traffic=()):
    cap = bo[0] * 2 ** bo[1] / 1000.0
    horizon = (stop_at if stop_at is not None else 0) + 400.0
    if stop_at is None:
        horizon = sum({'hang': S, 'silent': S}.get(o[0], 0.0) + (o[1] + o[2] + GRACE if o[0] == 'session' else 0.0) + cap
                      for o in script) + 1.0
    res, ev, conns, state = run_script(script, stop_at, mode, bo, unbind_answer, horizon, traffic)
    connects = [e[0] for e in ev if e[1] in ('connect-begin',)]
    begun = {e[2] for e in ev if e[1] == 'connect-begin'}
    connects = sorted([e[0] for e in ev if e[1] == 'connect-begin'] + [e[0] for e in ev if e[1] == 'connect' and e[2] not in begun])
    bound = [e[0] for e in ev if e[1] == 'state' and e[2].startswith('BOUND')]
    # the state is sampled at harness events: take the bind answer instead
    bound = [e[0] for e in ev if e[1] == 'received' and (e[2] or '').startswith('Bind') and e[6] in (0, 5)]
    unbind = [e[0] for e in ev if e[1] == 'sending' and e[2] == 'Unbind']
    ended = [e for e in ev if e[1] == 'start-ended']
    stopped_where = 'never'
    fail = None
    B = max(S + GRACE, cap, I + GRACE) + 0.001
    if stop_at is None:
        if res[0] != 'running':
            fail = 'start() ended (%r) although stop() was never called' % (res,)
    else:
        if res[0] != 'ended':
            fail = 'start() still running %.0f s after stop()' % (horizon - stop_at)
        elif res[1] is not None:
            fail = 'start() raised %s' % res[1]
        else:
            tr = ended[0][0]
            if tr < stop_at - 1e-9:
                fail = 'start() returned at %.3f before stop() at %.3f' % (tr, stop_at)
            elif tr - stop_at > B:
                fail = 'start() returned %.3f s after stop(), bound %.3f' % (tr - stop_at, B)
            elif state != 'CLOSED':
                fail = 'session state %s after start() returned' % state
            elif any(not c[1] for c in conns):
                fail = 'connection %s left open after start() returned' % [c[0] for c in conns if not c[1]]
            else:
                # an unbind must have been written on the connection that was bound when stop() was called
                bound_at_stop = [e for e in ev if e[1] == 'stop-called' and e[2].startswith('BOUND')]
                if bound_at_stop and not unbind:
                    fail = 'stop() found the session bound but no unbind was sent'
                for c in conns:
                    was_bound = any(e[1] == 'received' and (e[2] or '').startswith('Bind') and e[6] in (0, 5)
                                    and e[3][12:16] == p0 for e in ev for p0 in [b''])
        where = [e for e in ev if e[1] == 'stop-called']
        stopped_where = where[0][2] if where else 'never'
    if fail is None:
        fail = backoff_predicate(script, connects, bound, bo, stop_at)
    if any(e[1] == 'start-ended' and e[2] not in (None,) for e in ev) and fail is None:
        fail = 'start() ended with %s' % ended[0][2]
    # model line: stop while bound -> wind-down latency is what was observed when the peer stays silent
    lat = GRACE
    silent_unbind = stop_at is not None and not unbind_answer and unbind and ended
    if silent_unbind:
        lat = ended[0][0] - unbind[0]
    # stop() before the bind completed: the new tasks end at once, except the keeper when it finds the data event
    # clear (0.5 s grace) — observed, bounded by the predicate
    gs = 0.5
    if stop_at is not None and ended and bound and unbind and abs(unbind[-1] - bound[-1]) < 1e-9 and stop_at < bound[-1]:
        gs = ended[0][0] - bound[-1]
        if gs > 0.5 + 1e-9 and fail is None:
            fail = 'start() returned %.3f s after a bind that completed during shutdown' % gs
    line = 'sup %d %d %s %d %d %s' % (bo[0] * 10, bo[1], '-' if stop_at is None else str(ms(stop_at)), ms(lat), ms(gs),
                                      ' '.join(model_outcomes(script)))
    shown = ['connect@%d' % ms(t) for t in connects]
    # interleave in time order the way the model prints: by cycle
    evs = sorted([(t, 0, 'connect') for t in connects] + [(t, 1, 'bound') for t in bound] +
                 [(t, 2, 'unbind') for t in unbind] + ([(ended[0][0], 3, 'returned')] if ended else []))
    # model order: connect, bound, unbind, returned per cycle — same as time order with the tie-break above,
    # except that a connect begun before a slow set-up carries the begin time
    real = 'ok ' + ' '.join('%s@%d' % (k, ms(t)) for t, _, k in evs)
    sig = ('sup', mode, bo, tuple(sorted({o[0] for o in script})), stopped_where, unbind_answer, stop_at is None,
           tuple(sorted({k for _t, k in traffic})))
    inp = {'op': 'sup', 'script': script, 'stop': stop_at, 'mode': mode, 'bo': bo, 'unbind_answer': unbind_answer,
           'traffic': [list(x) for x in traffic]}
    if stop_at is None:
        # the script is finite: the model stops printing when it is exhausted, the real run goes on refusing
        n = len(script)
        real_evs = [x for x in evs]
        keep, seen = [], 0
        for t, o, k in real_evs:
            if k == 'connect':
                seen += 1
                if seen > n:
                    break
            keep.append((t, o, k))
        real = 'ok ' + ' '.join('%s@%d' % (k, ms(t)) for t, _, k in keep)
    else:
        # after the script is exhausted the SMSC refuses: extend the model script accordingly
        line += ' ' + ' '.join(['cf:0'] * min(6000, int(stop_at / (bo[0] / 1000.0)) + 20))
    if silent_unbind and fail is None and lat > I + GRACE + 0.001:
        fail = 'wind-down after stop() took %.3f s, more than enquire_link_interval + grace' % lat
    # the connections of the run: established (open_connection returned) / closed by the ESME, in the order observed
    cev = [(e[0], 'opened' if e[1] == 'connect' else 'closed') for e in ev if (e[1] == 'connect' and e[3] == 'ok') or e[1] == 'close']
    if stop_at is None:
        n_open = len([o for o in script if o[0] not in ('refuse', 'oserror', 'hang')])
        cev = cev[:2 * n_open]
    # does stop() find a connection it can still write to, should it fall into the time the tasks of a session that ended by
    # itself need to end?  (not after a reset by the peer: that connection is closed at the end of the cycle)
    early = 1
    if stop_at is not None:
        last = [e[2] for e in ev if e[1] == 'connect' and e[3] == 'ok' and e[0] <= stop_at]
        if last and last[-1] < len(script) and script[last[-1]][0] == 'session' and script[last[-1]][3] == 'reset':
            early = 0
    cline = 'supc %d %d %s %d %s' % (bo[0] * 10, bo[1], '-' if stop_at is None else str(ms(stop_at)), early,
                                     ' '.join(model_outcomes(script)))
    if stop_at is not None:
        cline += ' ' + ' '.join(['cf:0'] * min(6000, int(stop_at / (bo[0] / 1000.0)) + 20))
    creal = 'ok ' + ' '.join('%s@%d' % (k, ms(t)) for t, k in cev)
    extra = None if traffic else Case(cline, creal, ('supc', mode, stop_at is None, len(cev) // 2 if len(cev) < 8 else 8), None, inp)
    if traffic:
        # a message queued while a session winds down wakes the Sender, which then ends by itself instead of being cancelled
        # after the grace period: the cycle is shorter than the model's (whose task-ending time is a parameter).  Runs with
        # application traffic are therefore judged by the predicates alone (never returns without stop(), bounded return after
        # stop(), state and connections closed, back-off law)
        line = real = '# sup-with-traffic ' + json.dumps(inp)[:300]
    return Case(line, real, sig, fail, inp), extra


def dead_peer_case(rng, mode='TRANSCEIVER'):
    """a bound session whose peer dies the hard way: it stops reading and never sends again while the application keeps
    queueing large messages, so the Sender ends up suspended in drain().  The keeper must still give the peer up (probe after
    the idle interval, no answer within socket_timeout), start() must connect again, and stop() must return in bounded time."""
    from aiosmpplib.state import BindMode
    from aiosmpplib.protocol import SubmitSm
    from aiosmpplib.retrytimer import SimpleExponentialBackoff
    I2, T2 = 2.0, 1.5
    s = Sim(enquire_link_interval=I2, socket_timeout=T2, bind_mode=getattr(BindMode, mode), retry_timer=SimpleExponentialBackoff(250, 1))
    fail = None
    t_dead = round(rng.uniform(0.5, 3.0), 3) + 0.0003
    t_stop = t_dead + 4 * (I2 + T2) + 0.0007
    try:
        dead = {}

        def die():
            if s.smsc.conns:
                dead['conn'] = s.smsc.conns[-1]
                dead['conn'].stall(True)
                s.smsc.submit_status = lambda seq: None if not dead['conn'].closed else 0
                s.smsc.enquire = lambda conn, seq: None if conn is dead['conn'] else 0.0
        s.at(t_dead, die)
        for k in range(5):
            s.at(t_dead + 0.01 * (k + 1), s.enqueue, SubmitSm(short_message='z' * 40000, log_id='big%d' % k))
        s.at(t_stop, s.stop)
        res = s.run(t_stop + 200.0)
        ev = list(s.events)
        connects = [e[0] for e in ev if e[1] == 'connect' and e[3] == 'ok']
        ended = [e for e in ev if e[1] == 'start-ended']
        again = [t for t in connects if t > t_dead]
        if not again or again[0] > t_dead + I2 + T2 + 2 * 0.5 + 1.0 + 0.5:
            fail = ('the peer stopped reading and answering at %.3f (Sender suspended in drain() on a backlog); no new connection '
                    'by %.3f (enquire_link_interval %.1f + socket_timeout %.1f + task grace): %s' % (
                        t_dead, t_dead + I2 + T2 + 2.5, I2, T2, 'none at all' if not again else 'first at %.3f' % again[0]))
        elif res[0] != 'ended':
            fail = 'start() still running 200 s after stop()'
        elif ended and ended[0][2] is not None:
            fail = 'start() ended with %s' % ended[0][2]
        elif ended and ended[0][0] - t_stop > I2 + T2 + 2.0:
            fail = 'start() returned %.3f s after stop()' % (ended[0][0] - t_stop)
    except Exception as e:      # noqa
        fail = 'the scenario raised %r' % (e,)
    finally:
        s.close()
    line = '# dead-peer %s %.4f' % (mode, t_dead)
    return Case(line, line, ('dead-peer', mode), fail, {'op': 'dead-peer', 'mode': mode, 't_dead': t_dead})


def generate(rng, tier):
    thorough = tier == 'thorough'
    for mode in (('TRANSCEIVER', 'TRANSMITTER', 'TRANSCEIVER') if thorough else ('TRANSCEIVER', 'TRANSMITTER')):
        yield dead_peer_case(rng, mode)
    for _ in range(1500 if thorough else 300):
        c, extra = case_of(rng)
        yield c
        if extra is not None:
            yield extra


def replay(inp):
    if inp.get('op') == 'dead-peer':
        import random
        return dead_peer_case(random.Random(1), inp['mode'])
    c, extra = make_case([tuple(o) for o in inp['script']], inp['stop'], inp['mode'], tuple(inp['bo']), inp['unbind_answer'],
                         [tuple(x) for x in inp.get('traffic', [])])
    return c if (c.fail or extra is None) else c


def classify(case):
    return None
