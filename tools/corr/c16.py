"""C16 — keep-alive: real sessions on the virtual-time loop against a scripted SMSC; observed probe
times and the moment the keeper gives up compared with the Lean keeper model fed with the observed
arrival times, plus the property predicate computed independently from the arrival intervals."""
import json
from vlib import Case
from sim.simlib import Sim, pdu

ID = 'C16'
TARGETS = ['SmppVerif.Props.C16']
THOROUGH_ROUNDS = 10
RULE = ('sessions with enquire_link_interval I in {2.5, 4, 10} and socket_timeout T in {1.5, 2, 5} (seconds, virtual): the SMSC answers '
        'the k-th enquire_link after a delay drawn from {0, 0.25, T-0.25, T+0.25, never}, and sends unsolicited PDUs '
        '(enquire_link, deliver_sm, an unknown command, an unparsable deliver_sm) at random milliseconds, in bursts, periodically '
        'just below / just above I; the application submits messages meanwhile (periodically, once while a probe answer is awaited, '
         'at random) which the SMSC answers or not - outbound traffic is no sign of life; in some sessions the peer stops reading at a random moment while TCP stays up (drain() of whatever is written never returns); exact ties (arrival exactly at I or I+T after a restart) are generated separately and judged '
        'by the predicate only. One model line per keeper run (several per session when the link is dropped and re-established). '
        'distinct-nontrivial = distinct (I, T, answer-delay pattern class, unsolicited pattern, number of keeper runs, dropped?, tie?)')
TRUSTED = ['Lean 4.33.0 kernel', 'axioms: propext, Quot.sound, Classical.choice',
           'tools/sim/simlib.py: virtual-time SelectorEventLoop (clock jumps to the next timer), in-memory transport, scripted SMSC; '
           'the keeper coroutine is wrapped (instance attribute) to log when it starts and how it ends',
           'asyncio itself (sleep, wait, wait_for, Event) is not modelled: the model is the function from arrival times to probe / drop times']
ASSUMPTIONS = ['time is the loop clock; the data event is set at the moment a complete PDU was read',
               'ties between a timer and an arrival in the same loop iteration are outside the comparison']
EXHAUSTIVE = {'quick': False, 'thorough': False}

MS = 1000000          # quantum of the model lines: microseconds


def run_session(rng, I, T, delays, unsolicited, horizon, tie=None, submits=(), sub_answer=True, stall_at=None, seq_start=None):
    """returns (keeper runs, events); a keeper run = dict(start, end, how, arrivals, probes, conn)"""
    s = Sim(enquire_link_interval=I, socket_timeout=T)
    runs = []
    if seq_start is not None:
        # a long-running ESME: the sequence numbers are about to wrap (the probes draw from the same generator)
        s.esme.sequence_generator.sequence_num = seq_start
    try:
        orig = s.esme._connection_keeper
        cur = {}

        async def keeper():
            r = dict(start=s.loop.time(), how=None, end=None)
            cur['r'] = r
            runs.append(r)
            try:
                await orig()
                r['how'] = 'returned'
            except BaseException as e:      # noqa
                r['how'] = type(e).__name__
                raise
            finally:
                r['end'] = s.loop.time()
        s.esme._connection_keeper = keeper
        # the moment a complete PDU has been read (what "received from the SMSC" means to the keeper), independent of
        # how long the handlers, the hook or the response take afterwards
        orig_get = s.esme._get_pdu

        async def get_pdu():
            r = await orig_get()
            s.ev('pdu-read', int(r[1].smpp_command))
            return r
        s.esme._get_pdu = get_pdu
        # a TimeoutError inside the keeper is caught there; tell the cases apart by the log call
        orig_err = s.esme._logger.error

        def err(msg, *a, **kw):
            if 'Timed out while waiting for ENQUIRE_LINK' in str(msg) and cur.get('r') is not None:
                cur['r']['timeout_at'] = s.loop.time()
            return orig_err(msg, *a, **kw)
        s.esme._logger.error = err
        k = {'n': 0}

        def enquire(conn, seq):
            i = k['n']
            k['n'] += 1
            return delays[i % len(delays)]
        s.smsc.enquire = enquire
        seqs = {'n': 5000}

        def send_unsolicited(kind):
            if not s.smsc.conns:
                return
            conn = s.smsc.conns[-1]
            seqs['n'] += 1
            if kind == 'enq':
                conn.feed(pdu(0x15, 0, seqs['n']))
            elif kind == 'deliver':
                body = b'\x00\x00\x00\x00\x00\x00\x00\x00\x00\x00\x00\x00\x00\x00\x00\x00\x02hi'
                conn.feed(pdu(5, 0, seqs['n'], body))
            elif kind == 'unknown':
                conn.feed(pdu(0x103, 0, seqs['n'], b''))          # data_sm: not supported
            else:
                conn.feed(pdu(5, 0, seqs['n'], b'\xff\xff'))        # unparsable deliver_sm
        for t, kind in unsolicited:
            s.at(t, send_unsolicited, kind)
        # outbound application traffic: it is no sign of life of the peer (unless the peer answers it)
        if submits:
            from aiosmpplib.protocol import SubmitSm
            if not sub_answer:
                s.smsc.submit_status = lambda seq: None
            for j, t in enumerate(submits):
                s.at(t, s.enqueue, SubmitSm(short_message='out %d' % j, log_id='S%d' % j))
        if stall_at is not None:
            # the peer stops reading (and so stops answering) while TCP stays up: writes pile up, drain() never returns
            s.at(stall_at, lambda: s.smsc.conns and s.smsc.conns[-1].stall(True))
        s.at(horizon, s.stop)
        s.run(horizon + 50)
        ev = list(s.events)
    finally:
        s.close()
    # attribute events to keeper runs
    t_last = 1000.0 + max([e[0] for e in ev] + [0.0])
    for r in runs:
        if r['end'] is None:
            # the keeper was still running when the session was torn down (it should have ended with its session)
            r['end'] = t_last
            r['unfinished'] = True
        a, b = r['start'], r['end'] if r['end'] is not None else 1e18
        r['arrivals'] = [e[0] for e in ev if e[1] == 'pdu-read' and a - 1000.0 <= e[0] <= b - 1000.0
                         and e[2] not in (0x80000001, 0x80000002, 0x80000009)]
        r['probes'] = [e[0] for e in ev if e[1] == 'sending' and e[2] == 'EnquireLink' and a - 1000.0 <= e[0] <= b - 1000.0]
    return runs, ev


def q(t):
    return int(round(t * MS))


def predicate(I, T, r, tie):
    """the property, from the arrival intervals alone"""
    start, end = r['start'] - 1000.0, r['end'] - 1000.0
    arr = sorted(x for x in r['arrivals'] if x > start)
    pts = [start] + arr
    eps = 1e-9
    dropped = r.get('timeout_at')
    dropped = None if dropped is None else dropped - 1000.0
    # (3) a live peer is never dropped: a drop needs a silent period of I + T before it
    if dropped is not None:
        before = [x for x in pts if x <= dropped + eps]
        last = before[-1]
        if dropped - last < I + T - eps:
            return 'dropped at %.3f although a PDU arrived at %.3f (less than I+T=%.3f before)' % (dropped, last, I + T)
    if tie:
        return None
    for i, p in enumerate(pts):
        nxt = pts[i + 1] if i + 1 < len(pts) else None
        horizon_end = end if dropped is None else dropped
        # (1) idle for I -> probe at p + I
        if (nxt is None or nxt > p + I + eps) and p + I < horizon_end - eps:
            if not any(abs(x - (p + I)) < 1e-6 for x in r['probes']):
                return 'nothing received between %.3f and %.3f but no enquire_link at %.3f (probes %s)' % (
                    p, p + I, p + I, r['probes'][:6])
        # (2) silent for I + T -> dropped then
        if (nxt is None or nxt > p + I + T + eps) and p + I + T < end - eps:
            if dropped is None or abs(dropped - (p + I + T)) > 1e-6:
                return 'silent from %.3f for I+T but the keeper gave up at %s' % (p, dropped)
            break
    # probes only when idle
    for x in r['probes']:
        if not any(abs(x - (p + I)) < 1e-6 for p in pts):
            return 'enquire_link at %.3f is not I after the start or an arrival' % x
    return None


def scenario(rng, tie=False):
    I = rng.choice((2.5, 4.0, 10.0))
    T = rng.choice((1.5, 2.0, 5.0))
    pat = rng.choice(('prompt', 'slow-ok', 'late', 'never', 'mixed', 'mixed'))
    dl = {'prompt': [0.0], 'slow-ok': [T - 0.25, 0.25], 'late': [0.0, T + 0.25], 'never': [None],
          'mixed': [rng.choice((0.0, 0.25, T - 0.25, T + 0.25, None)) for _ in range(5)]}[pat]
    horizon = rng.choice((6, 9)) * (I + T)
    up = rng.choice(('none', 'none', 'random', 'below', 'above', 'burst'))
    uns = []
    if up == 'random':
        for _ in range(rng.randrange(1, 8)):
            uns.append((rng.randrange(1, int(horizon * 1000)) / 1000.0 + 0.0003, rng.choice(('enq', 'deliver', 'unknown', 'bad'))))
    elif up in ('below', 'above'):
        step = I - 0.137 if up == 'below' else I + 0.137
        t = step
        while t < horizon * 0.7:
            uns.append((round(t, 4), rng.choice(('enq', 'deliver'))))
            t += step
    elif up == 'burst':
        t0 = rng.randrange(1, int(horizon * 500)) / 1000.0 + 0.0007
        for j in range(rng.randrange(2, 6)):
            uns.append((t0 + j * 0.001 * rng.randrange(0, 3), rng.choice(('enq', 'deliver', 'unknown'))))
    if tie:
        uns = [(rng.choice((I, I + T)), 'enq')]
        dl = [0.0]
    if not tie:
        # distinct sub-millisecond offsets: no two arrivals are ever exactly I or I+T apart by accident
        uns = [(round(t, 3) + (j + 1) * 7e-6, kind) for j, (t, kind) in enumerate(uns)]
    uns.sort()
    sp = rng.choice(('none', 'none', 'periodic', 'single', 'few'))
    subs = []
    if sp == 'periodic':
        step = rng.choice((0.2, 0.7)) * I
        t = step / 2
        while t < horizon * 0.8:
            subs.append(round(t, 3) + 0.000211)
            t += step
    elif sp == 'single':
        subs = [round(I + rng.choice((0.1, 0.5)) * T, 3) + 0.000313]       # while the answer to the first probe is awaited
    elif sp == 'few':
        subs = sorted(round(rng.uniform(0.1, horizon * 0.8), 3) + 0.000417 + k * 1e-5 for k in range(rng.randrange(1, 5)))
    if tie:
        subs = []
    answer = rng.random() < 0.5
    stall_at = None
    if not tie and rng.random() < 0.3:
        stall_at = round(rng.uniform(0.5, horizon * 0.6), 3) + 0.000533
    seq_start = None
    if not tie and rng.random() < 0.25:
        seq_start = 0x7FFFFFFF - rng.randrange(0, 4)
    return I, T, dl, uns, horizon, (pat, up, sp, answer if subs else None, stall_at is not None, seq_start is not None), subs, answer, \
        stall_at, seq_start


def cases_of(rng, tie=False):
    I, T, dl, uns, horizon, cls, subs, answer, stall_at, seq_start = scenario(rng, tie)
    runs, ev = run_session(rng, I, T, dl, uns, horizon, submits=subs, sub_answer=answer, stall_at=stall_at, seq_start=seq_start)
    out = []
    for r in runs:
        if r['end'] is None:
            continue
        start, end = r['start'] - 1000.0, r['end'] - 1000.0
        arr = sorted(x for x in r['arrivals'] if x > start)
        dropped = r.get('timeout_at')
        line = 'keeper %d %d %d %d %s' % (q(I), q(T), q(start), q(end) + (1 if dropped is not None else 0),
                                          ','.join(str(q(x)) for x in arr) or '-')
        real = 'ok probes=%s drop=%s' % (','.join(str(q(x)) for x in r['probes']) or '-',
                                        '-' if dropped is None else str(q(dropped - 1000.0)))
        fail = predicate(I, T, r, tie)
        if r.get('unfinished'):
            if fail is None:
                fail = 'the keeper started at %.3f never ended although its session did (stop() at %.3f)' % (start, horizon)
            line = '# unfinished ' + line
            real = line + ' tie=0'
        sig = ('keeper', I, T, cls, len(runs), dropped is not None, tie)
        inp = {'op': 'session', 'I': I, 'T': T, 'delays': dl, 'unsolicited': uns, 'horizon': horizon, 'tie': tie,
               'submits': subs, 'sub_answer': answer, 'stall_at': stall_at, 'seq_start': seq_start}
        out.append((line, real, sig, fail, inp))
    return out


def generate(rng, tier):
    thorough = tier == 'thorough'
    for _ in range(400 if thorough else 90):
        for line, real, sig, fail, inp in cases_of(rng):
            yield Case(line, real if line.startswith('#') else real + ' tie=0', sig, fail, inp)
    for _ in range(60 if thorough else 15):
        for line, real, sig, fail, inp in cases_of(rng, tie=True):
            # ties: outside the comparison, judged by the predicate only
            yield Case('# tie ' + line, '# tie ' + line, sig, fail, inp)


def replay(inp):
    runs, ev = run_session(None, inp['I'], inp['T'], inp['delays'], [tuple(u) for u in inp['unsolicited']], inp['horizon'],
                           submits=inp.get('submits', ()), sub_answer=inp.get('sub_answer', True), stall_at=inp.get('stall_at'),
                           seq_start=inp.get('seq_start'))
    worst = None
    for r in runs:
        if r['end'] is None:
            continue
        f = predicate(inp['I'], inp['T'], r, inp.get('tie'))
        start, end = r['start'] - 1000.0, r['end'] - 1000.0
        arr = sorted(x for x in r['arrivals'] if x > start)
        dropped = r.get('timeout_at')
        line = 'keeper %d %d %d %d %s' % (q(inp['I']), q(inp['T']), q(start), q(end) + (1 if dropped is not None else 0),
                                          ','.join(str(q(x)) for x in arr) or '-')
        real = 'ok probes=%s drop=%s tie=0' % (','.join(str(q(x)) for x in r['probes']) or '-',
                                              '-' if dropped is None else str(q(dropped - 1000.0)))
        c = Case(line, real, None, f, inp)
        if f or worst is None:
            worst = c
            if f:
                break
    return worst


def classify(case):
    return None
