"""C13 — sequence numbers and response matching: correspondence and predicate."""
from vlib import Case, exc_name
from corr.corrlib import CorrSim, Q

ID = 'C13'
TARGETS = ['SmppVerif.Props.C13']
THOROUGH_ROUNDS = 10
RULE = ('sequence generator: start states min-1, min, mid, max-2, max-1, max and custom ranges, runs across the wrap; '
        'assert_valid_sequence at the limits; matching: histories of put(submit | enquire_link | unbind | bind) and '
        'responses through the real ESME._handle_response in any order with duplicates, unknown numbers, wrong types, '
        'generic_nack with any number, non-zero statuses. distinct-nontrivial = distinct (area, start class | response '
        'class: matching/duplicate/unknown/wrong-type/nack, request kind, outcome class)')
TRUSTED = ['Lean 4.33.0 kernel', 'axioms: propext, Quot.sound, Classical.choice',
           'tools/corr/corrlib.py (recording hook and throttle handler, virtual clock)']
ASSUMPTIONS = ['a whole _handle_response is one atomic step (the session model owns interleavings)',
               'all bind flavours are one kind; the ESME only ever sends the bind of its own mode']
EXHAUSTIVE = {'quick': False, 'thorough': False}


def seq_case(mn, mx, cur, k):
    from aiosmpplib.sequence import SimpleSequenceGenerator
    g = SimpleSequenceGenerator(mn, mx)
    g.sequence_num = cur
    outs = [g.next_sequence() for _ in range(k)]
    fail = None
    if mn <= cur + 1 and cur <= mx and mn >= 1:
        if any(not (mn <= x <= mx) for x in outs):
            fail = 'sequence number outside %d..%d' % (mn, mx)
        w = min(k, mx - mn + 1)
        for i in range(0, k - w + 1):
            if len(set(outs[i:i + w])) != w:
                fail = 'repeated number within %d consecutive requests' % w
                break
    cls = 'init' if cur == mn - 1 else ('max' if cur == mx else ('nearmax' if mx - cur <= 2 else 'mid'))
    return Case('seq.take %d %d %d %d' % (mn, mx, cur, k), 'ok ' + (','.join(map(str, outs)) if outs else '-'),
                ('seq', cls, k > mx - mn), fail, {'op': 'seq', 'args': [mn, mx, cur, k]})


def valid_case(n):
    from aiosmpplib.sequence import assert_valid_sequence
    try:
        assert_valid_sequence(n)
        out = 'ok'
    except Exception as e:      # noqa
        out = 'exc ' + exc_name(e)
    want = 'ok' if 1 <= n <= 0x7FFFFFFF else 'exc ValueError'
    return Case('seq.valid %d' % n, out, ('valid', out), None if out == want else 'assert_valid_sequence(%d)' % n,
                {'op': 'valid', 'n': n})


def history(rng, n_req, sig_extra=()):
    sim = CorrSim(ttl_resp_q=1000 * Q)
    cases = [Case(sim.first_line, 'ok', None)]
    fail = None
    classes = set()
    try:
        t = 10
        outstanding = {}        # seq -> (kind, log)
        seqs = rng.sample(range(1, 60), n_req)
        segged = {}             # seq -> True for segments of a segmented message
        group = None            # (log, ref, total, next k) while the segments of one message are being stored
        for i, sq in enumerate(seqs):
            kind = rng.choice(('submit', 'submit', 'submit', 'enq', 'unbind', 'bind'))
            t += 1
            if group is not None:
                log, ref, tot, k = group
                m = sim.submit(sq, log, log + 100, sar=(ref, k, tot))
                kind = 'submit'
                outstanding[sq] = ('submit', log)
                segged[sq] = True
                group = (log, ref, tot, k + 1) if k < tot else None
            elif kind == 'submit' and rng.random() < 0.3 and i + 1 < len(seqs):
                # a message the library segmented: its segments are requests of their own (answered, answered twice, nacked)
                tot = rng.choice((2, 3))
                log = 200 + i
                m = sim.submit(sq, log, log + 100, sar=(7 + i, 1, tot))
                outstanding[sq] = ('submit', log)
                segged[sq] = True
                group = (log, 7 + i, tot, 2)
            elif kind == 'submit':
                m = sim.submit(sq, 200 + i, 300 + i)
                outstanding[sq] = (kind, 200 + i)
            else:
                m = sim.request(kind, sq)
                outstanding[sq] = (kind, 0)
            ln, out = sim.op_put(t, m)
            cases.append(Case(ln, out, None))
        # responses: matching, duplicates, unknown numbers, wrong types, nacks
        plan = []
        for sq, (kind, log) in outstanding.items():
            right = {'submit': 'submitresp', 'enq': 'enqresp', 'unbind': 'unbindresp', 'bind': 'bindresp'}[kind]
            c = rng.randrange(6)
            if c == 2 and segged.get(sq):
                # a wrong-type response carrying the number of a live submit_sm consumes the request: known finding of C01
                # (wrong-type-response-consumes-request); for a segment it also ends up as the message's last response.
                # Not generated here, so that this check judges what C13 states on its own.
                c = 1
            if c == 0:
                plan.append((sq, right, 'match'))
            elif c == 1:
                plan.append((sq, right, 'match'))
                plan.append((sq, right, 'duplicate'))
            elif c == 2:
                wrong = rng.choice([x for x in ('submitresp', 'enqresp', 'unbindresp', 'bindresp') if x != right])
                plan.append((sq, wrong, 'wrongtype'))
                plan.append((sq, right, 'after-wrongtype'))
            elif c == 3:
                plan.append((sq, 'nack', 'nack'))
                plan.append((sq, right, 'after-nack'))
            elif c == 4:
                pass
            else:
                plan.append((sq, right, 'match'))
        for _ in range(rng.randrange(0, 4)):
            plan.append((rng.randrange(100, 200), rng.choice(('submitresp', 'nack', 'enqresp')), 'unknown'))
        # numbers no request ever carries: 0 (a generic_nack may come with a NULL sequence number) and values beyond the range
        for _ in range(rng.randrange(0, 3)):
            plan.append((rng.choice((0, 0, 0x7FFFFFFF, 0x80000000, 0xFFFFFFFF)), rng.choice(('nack', 'nack', 'submitresp', 'enqresp')),
                         'no-such-number'))
        rng.shuffle(plan)
        live = dict(outstanding)
        for (sq, rk, label) in plan:
            t += 1
            status = rng.choice((0, 0, 0, 8, 0x58, 0x14, 0x45))
            r = sim.resp(rk, sq, status, 'id%d' % sq if rk == 'submitresp' else '')
            ln, out, res = sim.op_hresp(t, r)
            cases.append(Case(ln, out, None))
            # ---- predicate: attribution only for a live submit with this number and a compatible response
            got_log = None
            if res is not None and res is not sim.em._SUBMIT_SM_SEGMENT:
                got_log = getattr(res, 'log_id', '')
            entry = live.pop(sq, None)
            should = entry is not None and entry[0] == 'submit' and rk in ('submitresp', 'nack')
            classes.add((label, rk, entry[0] if entry else None))
            if fail is None:
                if should and segged.get(sq):
                    # a segment: the placeholder (message not complete yet) or the message's outcome, never another identity
                    if res is not sim.em._SUBMIT_SM_SEGMENT and got_log not in ('L%d' % entry[1],):
                        fail = 'response %s seq %d for a live segment of message L%d handed over with log_id %r' % (
                            rk, sq, entry[1], got_log)
                elif should and got_log != 'L%d' % entry[1]:
                    fail = 'response %s seq %d for live submit (log L%d) handed over with log_id %r' % (
                        rk, sq, entry[1], got_log)
                if not should and got_log:
                    fail = '%s response %s seq %d attributed to log_id %r' % (label, rk, sq, got_log)
        ln, out = sim.op_dump()
        cases.append(Case(ln, out, ('match', tuple(sorted(c[0] for c in classes))[:4], n_req > 4) + sig_extra, fail,
                          {'op': 'history', 'lines': [c.line for c in cases[1:]]}))
    finally:
        sim.close()
    return cases


def generate(rng, tier):
    thorough = tier == 'thorough'
    MX = 0x7FFFFFFF
    for cur in (0, 1, 2, 1000, MX - 3, MX - 2, MX - 1, MX):
        for k in (1, 2, 5, 40):
            yield seq_case(1, MX, cur, k)
    for (mn, mx) in ((0, 255), (1, 3), (5, 5), (10, 14), (1, 2)):
        for cur in range(max(mn - 1, 0), mx + 1):
            for k in (1, mx - mn + 1, mx - mn + 2, 2 * (mx - mn) + 3):
                if k <= 600:
                    yield seq_case(mn, mx, cur, k)
    for n in (-1, 0, 1, 2, MX - 1, MX, MX + 1, 2 ** 32, -2 ** 31):
        yield valid_case(n)
    for _ in range(1200 if thorough else 300):
        yield from history(rng, rng.randrange(1, 12))
    # a late response handled while the sweep that reports its request is suspended in the hook: one outcome only
    from corr import c14
    for ttl in (1024, 15 * 1024):
        for k in (1, 2, 3):
            for what in ('self', 'other', 'unknown', 'sweep'):
                yield from c14.interleaved_history(ttl, k, what, 1)
    # the correlator's operations interleaved under random schedules, compared with the turn-level model
    for _ in range(200 if thorough else 50):
        yield from c14.sched_history(rng, rng.choice((1024, 15 * 1024)))
    # session level: the real ESME.start() with an application that queues message objects a second time and clones of
    # objects already sent; judged by the wire (distinct sequence numbers) and the outcome ledger
    from corr import c01s
    yield from c01s.generate(rng, 120 if thorough else 40, again=True, which='c13')


def replay(inp):
    if inp['op'] == 'sched':
        return Case('\n'.join(['c.new %d 102400' % inp['ttl']] + inp.get('lines', [])), '', None, None, inp)
    if inp['op'] == 'interleaved':
        from corr import c14
        return c14.interleaved_history(inp['ttl'], inp['k'], inp['what'], inp['which'])[-1]
    if inp['op'] == 'session':
        from corr import c01s
        return c01s.case_of(dict(inp['sc']), 'c13')
    if inp['op'] == 'seq':
        return seq_case(*inp['args'])
    if inp['op'] == 'valid':
        return valid_case(inp['n'])
    return Case('\n'.join(['c.new 1024000 102400'] + inp.get('lines', [])), '', None, None, inp)


def classify(case):
    return None
