"""C06 — send robustness: constructible SubmitSm values queued to a real bound session on the
virtual-time loop; the PDUs written or the error handed to send_error, and whether sending goes on,
are compared with the Lean sender model; the property predicate is evaluated on what was observed."""
import asyncio
import struct
from vlib import Case
from corr import pdulib as L
from sim.simlib import Sim

ID = 'C06'
TARGETS = ['SmppVerif.Props.C06']
THOROUGH_ROUNDS = 3
RULE = ('SubmitSm values accepted by the constructor, queued one after the other to a bound session: the C03 field space with '
        'values the wire format does not allow (negative and oversized integers that pass validation, NUL / non-ASCII in '
        'C-octet strings, encoding names without codec or without data_coding member, unknown error_handling values, lone '
        'surrogates, TLVs with extreme values), every text length class (0, 1, 160/161, 254/255, multi-segment, > 255 segments) in '
        'GSM (with extension characters), UCS2 (with astral characters) and mixed text, with auto_message_payload on/off, UDHI bit '
        'on/off, explicit encodings; default alphabets gsm0338 / ucs2 / ascii / latin_1. Each message is followed by a plain one, '
        'which must be transmitted; plus whole queues (3..15 messages handed to the broker at once) compared with the loop model on the '
        'generators\' state, including a sequence generator that runs past the largest SMPP sequence number in the middle of a queue. distinct-nontrivial = distinct (default alphabet, auto_message_payload, UDHI, explicit '
        'encoding class, text class, outcome: number of PDUs or error class)')
TRUSTED = ['Lean 4.33.0 kernel', 'axioms: propext, Quot.sound, Classical.choice',
           'tools/extract.py gen_catch (the isinstance tuple of _dequeue_messages by AST; class hierarchy from the interpreter)',
           'tools/sim/simlib.py', 'the encoder / splitter models are those tied to protocol.py / utils.py by C03/C04/C08']
ASSUMPTIONS = ['hooks return normally; writes succeed (transport failures: C07); no rate limiter, default throttle handler',
               'codecs outside the model are queued to the real session and judged by the predicate only']
EXHAUSTIVE = {'quick': False, 'thorough': False}

TEXTS = [
    ('gsm-1', 'a'), ('gsm-160', 'a' * 160), ('gsm-161', 'a' * 161), ('gsm-ext', 'x{€}' * 30), ('gsm-ext-boundary', 'a' * 152 + '€' * 20),
    ('gsm-254', 'b' * 254), ('gsm-255', 'b' * 255), ('gsm-long', 'hello world ' * 60), ('ucs2-1', 'ж'), ('ucs2-70', 'ж' * 70),
    ('ucs2-71', 'ж' * 71), ('ucs2-127', 'я' * 127), ('ucs2-128', 'я' * 128), ('ucs2-long', 'привет мир ' * 40),
    ('astral', '😀' * 40), ('astral-boundary', 'ж' * 66 + '😀' * 10), ('mixed', 'abc€жд😀' * 25), ('surrogate', 'ab\ud800cd'),
    ('latin', 'café ' * 20), ('nul', 'a\x00b'), ('huge', 'z' * 40000),
]


# names the Python codec registry knows besides the text encodings of SMPP: codecs that are not text encodings at all
# (bytes-to-bytes, str-to-str), text encodings without data_coding member, stateful and escape codecs.  The models do
# not describe them; the session is judged by the predicate.
PY_CODECS = ('hex', 'base64', 'zlib', 'bz2', 'quopri', 'uu', 'rot13', 'idna', 'punycode', 'unicode_escape',
             'raw_unicode_escape', 'utf-16', 'utf-32', 'utf-7', 'utf-8-sig', 'cp1252', 'koi8_r', 'big5', 'undefined',
             'iso8859_5', 'shift_jis', 'euc_kr')


def gen_message(rng):
    from aiosmpplib.protocol import SubmitSm
    k = rng.randrange(10)
    if k < 3:
        try:
            return L.rand_sm(rng, 'SubmitSm', wf=False), 'sweep-nonwf'
        except ValueError:
            return None
    if k < 5:
        return L.rand_sm(rng, 'SubmitSm'), 'sweep-wf'
    tag, text = rng.choice(TEXTS)
    kw = dict(short_message=text, auto_message_payload=rng.random() < 0.3, log_id='m%d' % rng.randrange(10 ** 6),
              encoding=rng.choice((None, None, None, 'gsm0338', 'ucs2', 'ascii', 'latin_1', 'gsm0338_packed', 'utf-8', 'nosuch', '',
                                   rng.choice(PY_CODECS))),
              error_handling=rng.choice(('strict', 'strict', 'replace', 'ignore', 'bogus')),
              esm_class=rng.choice((0, 0, 0x40, 0x40, 0x43, 0xC0)))
    if rng.random() < 0.15:
        kw['message_payload'] = kw.pop('short_message')
    try:
        return SubmitSm(**kw), 'text-' + tag
    except ValueError:
        return None


def exc_class(name):
    return {'error': 'StructError'}.get(name, name)


def batch(msgs, default, ref_start=None, on_sending=None, settle=0.002):
    """ref_start: where the Sender's 0..255 reference generator stands (as after that many messages sent before);
    on_sending: coroutine function (message, pdu) awaited inside the application's sending hook (it may sleep or change
    objects, as applications do); settle: how long the environment waits for the PDUs of a message"""
    from aiosmpplib.protocol import SubmitSm
    s = Sim(enquire_link_interval=1e6, socket_timeout=5.0, default_encoding=default)
    obs = []
    try:
        refs, seqs = [], []
        rg = s.esme._ref_seq_generator
        if ref_start is not None:
            rg.sequence_num = ref_start
        orig_ref = rg.next_sequence

        def ref_next():
            v = orig_ref()
            refs.append(v)
            return v
        rg.next_sequence = ref_next
        if on_sending is not None:
            inner_sending = s.hook.sending

            async def sending(m_, p_, cid_):
                await inner_sending(m_, p_, cid_)
                await on_sending(m_, p_)
            s.hook.sending = sending

        async def env():
            for m in msgs:
                for _ in range(400):
                    if s.esme._bound.is_set() and s.esme.session_state.name.startswith('BOUND'):
                        break
                    await asyncio.sleep(0.01)
                conn = s.smsc.conns[-1]
                n0 = len(conn.pdus)
                e0 = len(s.events)
                r0 = len(refs)
                nconn = len(s.smsc.conns)
                seq0 = s.esme.sequence_generator.sequence_num if hasattr(s.esme.sequence_generator, 'sequence_num') else None
                # every queued message gets a log_id of its own, so that what send_error is handed can be identified
                m.log_id = 'q%d' % len(obs)
                line = L.show_msg(m)
                own_sar = any(p.tag in (0x020C, 0x020E, 0x020F) for p in (m.optional_params or []))
                s.enqueue(m)
                await asyncio.sleep(settle)
                written = [p for p in conn.pdus[n0:] if p[4:8] == b'\x00\x00\x00\x04']
                errors = [e for e in s.events[e0:] if e[1] == 'send_error']
                # then a plain message must go out
                follow = SubmitSm(short_message='next', log_id='follow')
                c2 = s.smsc.conns[-1]
                for _ in range(400):
                    if s.esme._bound.is_set() and s.esme.session_state.name.startswith('BOUND') and not s.smsc.conns[-1].closed:
                        break
                    await asyncio.sleep(0.01)
                c2 = s.smsc.conns[-1]
                m0 = len(c2.pdus)
                s.enqueue(follow)
                await asyncio.sleep(0.002)
                follow_ok = any(p[4:8] == b'\x00\x00\x00\x04' for p in c2.pdus[m0:])
                done = s.start_task.done()
                obs.append(dict(line=line, log=m.log_id, own_sar=own_sar, written=written, errors=errors, follow_ok=follow_ok, ref=refs[r0] if len(refs) > r0 else 0,
                                seq=struct.unpack('!I', written[0][12:16])[0] if written else (seq0 + 1 if seq0 is not None else 1),
                                reconnected=len(s.smsc.conns) > nconn,
                                ended=(repr(s.start_task.exception()) if done and not s.start_task.cancelled() else None) if done else None,
                                done=done))
                if done:
                    break
            s.stop()
        s.loop.create_task(env())
        s.run(10 ** 6)
        ended = [e for e in s.events if e[1] == 'start-ended']
        stops = [e for e in s.events if e[1] == 'stop-called']
        if ended and (not stops or ended[0][0] < stops[0][0]) and len(obs) < len(msgs) and not (obs and obs[-1]['done']):
            # start() ended while the environment was waiting: the message queued last is the one that did it
            obs.append(dict(line=L.show_msg(msgs[len(obs)]), own_sar=True, written=[], errors=[], follow_ok=False, ref=0, seq=1, reconnected=False,
                            ended=str(ended[0][2]), done=True))
    finally:
        s.close()
    return obs


def render(o):
    hexes = ';'.join(p.hex() for p in o['written']) or '-'
    if o['errors']:
        cls = exc_class(o['errors'][0][4])
        return 'failed %s %s %s' % (hexes, cls, 'ends' if o['reconnected'] or o['done'] else 'continues')
    return 'sent %s' % hexes


def parse_submit(p):
    """independent reading of a submit_sm: (esm_class, short_message octets, [(tag, value octets)])"""
    i = 16

    def cstr():
        nonlocal i
        j = p.index(b'\x00', i)
        v = p[i:j]
        i = j + 1
        return v
    cstr()
    i += 2
    cstr()
    i += 2
    cstr()
    esm = p[i]
    i += 3
    cstr()
    cstr()
    i += 4
    ln = p[i]
    i += 1
    sm = p[i:i + ln]
    i += ln
    tlvs = []
    while i + 4 <= len(p):
        tag, tl = struct.unpack('!HH', p[i:i + 4])
        tlvs.append((tag, p[i + 4:i + 4 + tl]))
        i += 4 + tl
    return esm, sm, tlvs


def segments_consistent(written):
    """the PDUs of one message: either one PDU without segmentation data, or n PDUs numbered 1..n of n under one
    reference, each carrying its segmentation data exactly once (SAR parameters or a concatenation UDH)"""
    infos = []
    for p in written:
        try:
            esm, sm, tlvs = parse_submit(p)
        except Exception as e:      # noqa
            return 'a written submit_sm cannot be read back by an independent parser (%r)' % (e,)
        sar = {t: v for t, v in tlvs if t in (0x020C, 0x020E, 0x020F)}
        n_sar = len([1 for t, v in tlvs if t in (0x020C, 0x020E, 0x020F)])
        if esm & 0x40 and len(sm) >= 6 and sm[1] in (0, 8):
            if sm[1] == 0:
                infos.append(('udh', sm[3], sm[4], sm[5]))
            else:
                infos.append(('udh', sm[3] * 256 + sm[4], sm[5], sm[6]))
            continue
        if n_sar == 0:
            infos.append(None)
            continue
        if n_sar != 3 or len(sar) != 3:
            return 'a segment carries %d SAR parameters' % n_sar
        infos.append(('sar', int.from_bytes(sar[0x020C], 'big'), sar[0x020E][0], sar[0x020F][0]))
    if len(written) == 1:
        return None
    if any(x is None for x in infos):
        return 'a message sent as %d PDUs has a PDU without segmentation data' % len(written)
    refs = {x[1] for x in infos}
    if len(refs) != 1:
        return 'segments of one message carry different reference numbers %s' % sorted(refs)
    if [x[3] for x in infos] != list(range(1, len(written) + 1)) or any(x[2] != len(written) for x in infos):
        return 'segments are numbered %s of %s, expected 1..%d of %d' % ([x[3] for x in infos], [x[2] for x in infos],
                                                                     len(written), len(written))
    return None


def predicate(o, m=None):
    if o['done']:
        return 'start() ended (%s) after the message was queued' % o['ended']
    if not o['follow_ok']:
        return 'the message queued after it was not transmitted'
    if o['errors'] and len(o['errors']) > 1:
        return 'send_error called %d times for one message' % len(o['errors'])
    if o['errors'] and 'log' in o and (o['errors'][0][2] != 'SubmitSm' or o['errors'][0][3] != o['log']):
        return 'send_error was handed %s %r, the message that failed is SubmitSm %r' % (
            o['errors'][0][2], o['errors'][0][3], o['log'])
    if not o['errors'] and not o['written']:
        return 'the message was neither transmitted nor handed to send_error'
    if o['reconnected'] and o['errors']:
        return 'a message the sender could not build (%s) broke the connection' % o['errors'][0][4]
    own_sar = o.get('own_sar', True)         # recorded before the message was queued
    if o['written'] and not o['errors'] and len(o['written']) > 1 and not own_sar:
        # a NUL inside a C-octet-string field (the library does not refuse it) ends the field early for every reader:
        # an independent parser cannot locate the segmentation data of such a PDU, the model comparison still applies
        nul = m is not None and any('\x00' in str(x or '') for x in (
            getattr(m, 'service_type', ''), getattr(getattr(m, 'source', None), 'number', ''),
            getattr(getattr(m, 'destination', None), 'number', '')))
        if not nul:
            return segments_consistent(o['written'])
    return None


def queue_case(rng, default, n, highseq=None):
    """a whole queue handed to the broker at once: the Sender works through it with the sequence-number and reference
    generators in whatever state they are; model line txq = the loop model on the same generator state.
    highseq = k: the application's sequence generator is configured up to 0xFFFFFFFF and stands k numbers before the
    largest number SMPP allows, so the messages after the k-th draw a number `assert_valid_sequence` refuses"""
    items = []
    while len(items) < n:
        g = gen_message(rng)
        if g is None:
            continue
        m, _tag = g
        if L.is_opaque(m.encoding) or L.is_opaque(default) or m.error_handling in L.REGISTERED_HANDLERS:
            continue
        if len(m.short_message or m.message_payload or '') > 5000:
            continue
        m.log_id = 'q%d' % len(items)
        items.append(m)
    lines = [L.show_msg(m) for m in items]
    s = Sim(enquire_link_interval=1e6, socket_timeout=5.0, default_encoding=default)
    res = {}
    try:
        order = []          # (log_id, pdu) in the order the sending hook was called
        orig_sending = s.hook.sending

        async def sending(m, p, cid):
            if type(m).__name__ == 'SubmitSm':
                order.append((m.log_id, bytes(p)))
            await orig_sending(m, p, cid)
        s.hook.sending = sending

        async def env():
            for _ in range(400):
                if s.esme._bound.is_set() and s.esme.session_state.name.startswith('BOUND'):
                    break
                await asyncio.sleep(0.01)
            sg, rg = s.esme.sequence_generator, s.esme._ref_seq_generator
            if highseq is not None:
                sg.max_num = 0xFFFFFFFF
                sg.sequence_num = 0x7FFFFFFF - highseq
            res['gens'] = (sg.min_num, sg.max_num, sg.sequence_num, rg.sequence_num)
            res['nconn'] = len(s.smsc.conns)
            for m in items:
                s.enqueue(m)
            await asyncio.sleep(0.5)
            res['done'] = s.start_task.done()
            res['reconnected'] = len(s.smsc.conns) > res['nconn']
            s.stop()
        s.loop.create_task(env())
        s.run(10 ** 6)
        conn = s.smsc.conns[res.get('nconn', 1) - 1]
        wire = [p for p in conn.pdus if p[4:8] == b'\x00\x00\x00\x04']
        errors = [e for e in s.events if e[1] == 'send_error']
    finally:
        s.close()
    # per message: PDUs announced for it that reached the wire, error handed to send_error
    per = []
    fail = None
    written = [o for o in order if o[1] in wire]
    for m in items:
        ps = [p for lg, p in written if lg == m.log_id]
        es = [e for e in errors if e[3] == m.log_id]
        per.append((ps, es))
    # predicate: exactly one result each; the wire carries the messages' PDUs in queue order, not interleaved
    seen_logs = [lg for i, (lg, _p) in enumerate(written) if i == 0 or written[i - 1][0] != lg]
    want_logs = [m.log_id for m, (ps, es) in zip(items, per) if ps]
    if res.get('done'):
        fail = 'start() ended after the queue was handed over'
    elif seen_logs != want_logs:
        fail = 'PDUs on the wire belong to messages %s, queued order %s' % (seen_logs[:12], want_logs[:12])
    elif [p for _lg, p in written] != wire:
        fail = 'the submit_sm PDUs on the wire are not those announced for the queued messages, in that order'
    else:
        for m, (ps, es) in zip(items, per):
            if len(es) > 1 or (not es and not ps):
                fail = 'message %s: %d PDUs written, send_error called %d times' % (m.log_id, len(ps), len(es))
                break
            if es and es[0][2] != 'SubmitSm':
                fail = 'send_error for %s was handed a %s' % (m.log_id, es[0][2])
                break
    outs = []
    for ps, es in per:
        hexes = ';'.join(p.hex() for p in ps) or '-'
        if es:
            outs.append('failed %s %s continues' % (hexes, exc_class(es[0][4])))
        else:
            outs.append('sent %s' % hexes)
    gens = res.get('gens', (1, 0x7FFFFFFF, 1, 0))
    line = 'txq %s %d %d %d %d %s' % (L.enc_triple(default), gens[0], gens[1], gens[2], gens[3], ' | '.join(lines))
    sig = ('txq', default, n, sum(1 for ps, es in per if es), sum(1 for ps, es in per if len(ps) > 1), highseq is not None)
    return Case(line, ' / '.join(outs), sig, fail, {'op': 'txq', 'default': default, 'lines': lines, 'gens': list(gens),
                                                   'highseq': highseq})


def generate(rng, tier):
    thorough = tier == 'thorough'
    for _ in range(12 if thorough else 4):
        yield queue_case(rng, rng.choice(('gsm0338', 'gsm0338', 'ucs2', 'latin_1')), rng.choice((3, 8, 15)))
    for k in ((0, 1, 2, 5) if thorough else (0, 2)):
        yield queue_case(rng, 'gsm0338', 6, highseq=k)
    for _ in range(36 if thorough else 9):
        default = rng.choice(('gsm0338', 'gsm0338', 'ucs2', 'ascii', 'latin_1'))
        items = []
        while len(items) < 40:
            g = gen_message(rng)
            if g is not None:
                items.append(g)
        obs = batch([m for m, _ in items], default)
        for (m, tag), o in zip(items, obs):
            fail = predicate(o, m)
            real = render(o)
            line = 'tx %s %d %d %s' % (L.enc_triple(default), o['ref'], o['seq'], o['line'])
            out = real.split(' ')
            sig = ('tx', default, bool(m.auto_message_payload), bool(m.esm_class & 0x40), str(m.encoding), tag,
                   (out[0], len(o['written']), out[2] if out[0] == 'failed' else ''))
            inp = {'op': 'tx', 'default': default, 'line': o['line'], 'ref': o['ref'], 'seq': o['seq']}
            # codecs and registered Python error handlers (xmlcharrefreplace, ...) the models do not describe: predicate only
            opaque = L.is_opaque(m.encoding) or L.is_opaque(default) or m.error_handling in L.REGISTERED_HANDLERS
            if opaque:
                yield Case('# opaque ' + line, '# opaque ' + line, sig, fail, inp)
            else:
                yield Case(line, real, sig, fail, inp)


def replay(inp):
    if inp.get('op') == 'txq':
        g = inp['gens']
        return Case('txq %s %d %d %d %d %s' % (L.enc_triple(inp['default']), g[0], g[1], g[2], g[3], ' | '.join(inp['lines'])), '', None, None, inp)
    return Case('tx %s %d %d %s' % (L.enc_triple(inp['default']), inp['ref'], inp['seq'], inp['line']), '', None, None, inp)


def classify(case):
    return None
