"""C11 — packed GSM codec: correspondence and property predicate (radix-change oracle)."""
import itertools
from vlib import Case, nats, hexs, exc_name
from spec import gsm as spec

ID = 'C11'
TARGETS = ['SmppVerif.Props.C11']
THOROUGH_ROUNDS = 2
RULE = ('all pairs of basic septets behind 0..7 padding septets (all 8 bit alignments), every length 0..64 over '
        'class representatives, extension characters at every offset 0..16, random texts to 200 characters '
        'in 3 modes, random octet strings and packed encodings (decode direction, 3 modes), texts encoded again after they '
        'went through both codecs (history independence); '
        'distinct-nontrivial = distinct (operation, mode, septet count mod 8 | octet count mod 7, '
        'character classes, outcome class)')
TRUSTED = ['Lean 4.33.0 kernel', 'axioms: propext, Classical.choice, Quot.sound',
           'tools/extract.py (GSM tables)', 'Spec/Packing.lean: packing stated as change of radix',
           'tools/corr/c11.py + Driver.lean line protocol']
ASSUMPTIONS = ['int(msg_len / 8) is modelled as integer division (exact below 2^53 bits)',
               'the decode loop is modelled as septet extraction followed by character assembly',
               'TypeError/ValueError for wrong argument types or unknown error modes not modelled']
EXHAUSTIVE = {'quick': False, 'thorough': False}
MODES = ('strict', 'ignore', 'replace')
_codec = None


def codec():
    global _codec
    if _codec is None:
        from aiosmpplib.codec import find_codec_info
        _codec = find_codec_info('gsm0338_packed')
    return _codec


def spec_pack(septets):
    v = 0
    for i, s in enumerate(septets):
        v |= s << (7 * i)
    return v.to_bytes((7 * len(septets) + 7) // 8, 'little')


def spec_unpack(data):
    v = int.from_bytes(data, 'little')
    return [(v >> (7 * i)) & 0x7F for i in range(8 * len(data) // 7)]


def enc_case(mode, text):
    c = codec()
    try:
        b = c.encode(text, mode)[0]
        out = 'ok ' + hexs(b)
    except Exception as e:      # noqa
        out = 'exc ' + exc_name(e)
        b = None
    fail = None
    septets = spec.encode(text)
    if septets is not None:
        want = spec_pack(septets)
        if b != want:
            fail = 'packed output is not the 3GPP packing of the GSM septets (want %s)' % want.hex()
        else:
            for dm in MODES:
                try:
                    back = c.decode(b, dm)[0]
                except Exception as e:      # noqa
                    fail = 'decode(encode(t)) raised %r' % e
                    break
                if back != text and not (len(septets) % 8 == 7 and back == text + '@'):
                    fail = 'text does not round-trip (%s): %r' % (dm, back)
                    break
    elif mode == 'strict' and b is not None:
        fail = 'strict mode accepted a character outside the alphabet'
    n7 = len(septets) % 8 if septets is not None else -1
    classes = ''.join(sorted(set('b' if ch in spec.BASIC_ENC else 'x' if ch in spec.EXT_ENC else 'u' for ch in text)))
    sig = ('enc', mode, n7, classes, out[:3] if out.startswith('ok') else out)
    return Case('pk.enc %s %s' % (mode, nats(text)), out, sig, fail,
                {'op': 'enc', 'mode': mode, 'text': [ord(ch) for ch in text]})


def dec_case(mode, data):
    c = codec()
    data = bytes(data)
    try:
        t = c.decode(data, mode)[0]
        out = 'ok ' + nats(t)
    except Exception as e:      # noqa
        out = 'exc ' + exc_name(e)
        t = None
    fail = None
    # predicate: unpacking recovers the 3GPP septets; their GSM reading (when free of escapes
    # the property says nothing about) is the text
    septets = spec_unpack(data)
    if spec.ESC not in septets:
        want = ''.join(spec.BASIC[s] for s in septets)
        if t != want:
            fail = 'decoded text is not the GSM reading of the unpacked septets'
    sig = ('dec', mode, len(data) % 7, spec.ESC in septets, out[:3] if out.startswith('ok') else out)
    return Case('pk.dec %s %s' % (mode, hexs(data)), out, sig, fail,
                {'op': 'dec', 'mode': mode, 'hex': data.hex()})


def hist_case(mode, text, k):
    """the packed codec is a function of its input: same octets after the text went through both codecs before"""
    from aiosmpplib.codec import find_codec_info
    plain = find_codec_info('gsm0338')
    for _ in range(k):
        for c in (codec(), plain, codec()):
            try:
                b = c.encode(text, mode)[0]
                c.decode(b, mode)
            except Exception:      # noqa
                pass
    case = enc_case(mode, text)
    case.inp = {'op': 'hist', 'mode': mode, 'text': [ord(ch) for ch in text], 'k': k}
    case.sig = ('hist',) + tuple(case.sig[1:])
    if case.fail:
        case.fail = 'after the same text went through the gsm0338_packed and gsm0338 codecs %d time(s): %s' % (k, case.fail)
    return case


def generate(rng, tier):
    thorough = tier == 'thorough'
    # the packed codec as the Sender uses it: long texts with extension characters through a real session
    from corr import c03
    yield from c03.session_wire_cases(rng, thorough, packed_only=True)
    basic = [spec.BASIC[k] for k in range(128) if k != spec.ESC]
    # 1. all pairs at all alignments
    pads = range(8)
    step = 1 if thorough else 1
    for pad in pads:
        pre = 'A' * pad
        for a in basic[::step]:
            for b in basic:
                yield enc_case('strict', pre + a + b)
    # 2. every length over representatives
    reps = ['@', 'A', '\x7f'.replace('\x7f', spec.BASIC[0x7F]), '€', '[', ' ']
    for n in range(0, 65):
        for r in reps:
            yield enc_case('strict', r * n)
        for _ in range(20 if thorough else 6):
            yield enc_case('strict', ''.join(rng.choice(reps) for _ in range(n)))
    # 3. extension characters straddling octet boundaries
    for off in range(0, 17):
        for x in spec.EXT_ENC:
            for tail in range(0, 9):
                yield enc_case('strict', 'a' * off + x + 'z' * tail)
    # 4. random texts in all modes (with characters outside the alphabet)
    alpha = sorted(spec.ALPHABET)
    outs = ['Α', '中', '\U0001F600', '\x1b', '\xe7']
    for _ in range(30000 if thorough else 4000):
        n = rng.randrange(0, 200)
        p = rng.choice((0.0, 0.0, 0.1))
        t = ''.join(rng.choice(outs) if rng.random() < p else rng.choice(alpha) for _ in range(n))
        yield enc_case(rng.choice(MODES), t)
    # 5. decode direction
    for n in range(0, 30):
        for _ in range(200 if thorough else 60):
            yield dec_case(rng.choice(MODES), [rng.randrange(256) for _ in range(n)])
    for _ in range(20000 if thorough else 3000):
        n = rng.randrange(0, 160)
        t = ''.join(rng.choice(alpha) for _ in range(n))
        yield dec_case(rng.choice(MODES), spec_pack(spec.encode(t)))
    # decoder history: a decode after a refused / lenient decode of octets whose last septet is the escape code
    for _ in range(2000 if thorough else 300):
        n = rng.randrange(1, 30)
        t = ''.join(rng.choice(alpha) for _ in range(n))
        for pm in rng.choice((('strict',), ('replace',), ('strict', 'ignore'))):
            for bad in (spec_pack([0x41, spec.ESC]), spec_pack([spec.ESC]), spec_pack([0x41] * 7 + [spec.ESC])):
                try:
                    codec().decode(bad, pm)
                except Exception:      # noqa
                    pass
        c = dec_case(rng.choice(MODES), spec_pack(spec.encode(t)))
        c.sig = ('hist-dec',) + tuple(c.sig[1:])
        if c.fail:
            c.fail = 'after decodes of octets ending in the escape code: ' + c.fail
        yield c
    # history independence
    for _ in range(3000 if thorough else 500):
        n = rng.randrange(1, 40)
        t = ''.join(rng.choice(alpha) for _ in range(n))
        yield hist_case(rng.choice(MODES), t, rng.randrange(1, 4))
    # trailing escape in every alignment
    for n in range(0, 24):
        septets = [rng.randrange(128) for _ in range(n)] + [spec.ESC]
        for m in MODES:
            yield dec_case(m, spec_pack(septets))


def replay(inp):
    if inp.get('op') == 'session-wire':
        return Case('# ' + str(inp)[:200], '', None, None, inp)
    if inp['op'] == 'hist':
        return hist_case(inp['mode'], ''.join(chr(c) for c in inp['text']), inp['k'])
    if inp['op'] == 'enc':
        return enc_case(inp['mode'], ''.join(chr(c) for c in inp['text']))
    return dec_case(inp['mode'], bytes.fromhex(inp['hex']))


def classify(case):
    return None
