"""C18 at session level: the real ESME.start() on the virtual-time loop with the real SimpleThrottleHandler and
SimpleRateLimiter plugged in (through recording subclasses that call the real methods), a scripted SMSC that answers
submit_sm with throttled / queue-full / other statuses, multi-segment messages, and something that suspends the Sender
between two segments (a correlator whose put takes time, a slow received hook).  What is observed — handler feeds,
consultations with their answers, submit_sm PDUs on the wire with their times — goes to the Lean gate monitor
(Model/Gate.lean: `gate.mon` must accept it, `gate.sender` must reproduce it when nothing suspends between consultation
and write) and to an independent predicate written from the statement."""
import asyncio
import random
import struct
from fractions import Fraction

from vlib import Case
from sim.simlib import Sim, pdu, T0

THROTTLED = (0x58, 0x14)


def scenario(rng):
    n = rng.randrange(2, 9)
    msgs = [dict(at=round(rng.uniform(0.2, 12.0), 3) + 0.0003, log='L%d' % (i + 1), nseg=rng.choice((1, 1, 2, 3, 4)))
            for i in range(n)]
    return dict(msgs=msgs, period=rng.choice((4.0, 10.0, 30.0)), sample=rng.choice((1.0, 2.0, 3.0, 5.0)),
                deny=rng.choice((0.0, 25.0, 50.0, 99.0)), wait=rng.choice((0.5, 3.0)),
                rate=rng.choice((None, None, 1.0, 2.0, 5.0, 20.0)), dput=rng.choice((0, 0.05, 0.3)),
                p_thr=rng.choice((0.0, 0.2, 0.5, 0.8, 1.0)), rdelay=rng.choice((0.0001, 0.01, 0.2)),
                hook=rng.choice(('none', 'none', 'received')), seed=rng.randrange(10 ** 9))


def fr(x):
    f = Fraction(x)
    return '%d/%d' % (f.numerator, f.denominator) if f.denominator != 1 else str(f.numerator)


def run(sc):
    from aiosmpplib.protocol import SubmitSm
    from aiosmpplib.correlator import SimpleCorrelator
    from aiosmpplib.throttle import SimpleThrottleHandler
    from aiosmpplib.ratelimiter import SimpleRateLimiter
    from aiosmpplib.log import StructuredLogger
    rng = random.Random(sc['seed'])
    holder = {}

    class Corr(SimpleCorrelator):
        async def put(self, smpp_message):
            await super().put(smpp_message)
            if sc['dput'] and isinstance(smpp_message, SubmitSm):
                await asyncio.sleep(sc['dput'])        # a store that takes time: the Sender is suspended after the write

    class Thr(SimpleThrottleHandler):
        async def allow_request(self):
            now = holder['s'].loop.time()
            r = await super().allow_request()
            holder['s'].ev('consult', now, bool(r))
            return r

        async def throttled(self):
            holder['s'].ev('feed', True)
            await super().throttled()

        async def not_throttled(self):
            holder['s'].ev('feed', False)
            await super().not_throttled()

    class Lim(SimpleRateLimiter):
        async def limit(self):
            await super().limit()
            holder['s'].ev('pass', holder['s'].loop.time())

    logger = StructuredLogger('x', 'CRITICAL')
    kw = dict(enquire_link_interval=2.0, socket_timeout=3.0, correlator=Corr('c', max_ttl_response=15.0))
    total = sum(m['nseg'] for m in sc['msgs'])
    stop_at = 20.0 + total * ((1.0 / sc['rate'] if sc['rate'] else 0) + sc['dput'] + sc['rdelay'] + 0.3) + 2 * sc['period'] + 10
    # the handlers read the clock when they are constructed: only after Sim() has put the virtual clock in place
    s = Sim(task_order=(1, 7)[sc['seed'] % 2], **kw)
    holder['s'] = s
    try:
        th = Thr(logger, sampling_period=sc['period'], sample_size=sc['sample'], deny_request_at=sc['deny'],
                 throttle_wait=sc['wait'])
        s.esme.throttle_handler = th
        if sc['rate']:
            s.esme.rate_limiter = Lim(logger, send_rate=sc['rate'])
        sc['_t0'] = th.updated_at
        if sc['hook'] == 'received':
            for i in range(200):
                if rng.random() < 0.4:
                    s.hook.delays[('received', i)] = rng.choice((0.01, 0.2))
        statuses = {}

        def on_submit(conn, seq):
            if rng.random() < sc['p_thr']:
                st = rng.choice(THROTTLED)
            else:
                st = rng.choice((0, 0, 0, 8))
            statuses[seq] = st
            delay = sc['rdelay'] + (seq % 1000) * 1e-6
            if st == 8 and rng.random() < 0.3:
                s.smsc.later(delay, conn.feed, pdu(0x80000000, 3, seq))
            else:
                s.smsc.msgid += 1
                body = (('id%d' % s.smsc.msgid).encode() + b'\x00') if st == 0 else (b'\x00' if seq % 2 else b'')   # error: body may be omitted
                s.smsc.later(delay, conn.feed, pdu(0x80000004, st, seq, body))
        orig_on_pdu = s.smsc.on_pdu

        def on_pdu(conn, p):
            ln, cmd, st, seq = struct.unpack('!IIII', p[:16])
            if cmd == 4:
                s.smsc.ev(s.loop.time(), 'rx', conn.idx, cmd, seq)
                s.smsc.ev(s.loop.time(), 'submit-write', s.loop.time())
                on_submit(conn, seq)
            else:
                orig_on_pdu(conn, p)
        s.smsc.on_pdu = on_pdu
        for m in sc['msgs']:
            text = 'hello' if m['nseg'] == 1 else ('x' * (254 * (m['nseg'] - 1) + 20))
            s.at(m['at'], s.enqueue, SubmitSm(short_message=text, auto_message_payload=False, log_id=m['log'],
                                              extra_data='x' + m['log']))
        s.at(stop_at, s.stop)
        s.run(stop_at + 100)
        ev = list(s.events)
    finally:
        s.close()
    sc['_stop_at'] = stop_at
    return ev


def gate_events(ev):
    out = []
    for e in ev:
        if e[1] == 'feed':
            out.append(('f', e[2]))
        elif e[1] == 'consult':
            out.append(('c', e[2], e[3]))
        elif e[1] == 'submit-write':
            out.append(('w', e[2]))
    return out


def predicate(sc, ev):
    ended = [e for e in ev if e[1] == 'start-ended']
    if not ended or ended[0][2] is not None:
        return 'start() %s' % ('still running' if not ended else 'ended with %s' % ended[0][2])
    P, S, D = Fraction(sc['period']), Fraction(sc['sample']), Fraction(sc['deny'])
    thr = non = 0
    upd = Fraction(sc['_t0'])
    armed = False
    last_denial = None
    writes = []
    consults = []
    for e in gate_events(ev):
        if e[0] == 'f':
            if e[1]:
                thr += 1
            else:
                non += 1
        elif e[0] == 'c':
            now = Fraction(e[1])
            total = thr + non
            want = True
            if total >= S and total > 0:
                pct = Fraction(100 * thr, total)
                if abs(pct - D) <= Fraction(1, 200):
                    want = None
                else:
                    want = pct <= D
            if want is not None and want != e[2]:
                return ('allow_request() = %s at +%.4f with %d of %d responses of the window throttled (sample_size %s, '
                        'deny above %s %%)' % (e[2], e[1] - T0, thr, total, sc['sample'], sc['deny']))
            if last_denial is not None and abs((e[1] - last_denial) - sc['wait']) > 1e-6:
                return 'after the denial at +%.4f the handler was consulted again after %.4f s, throttle_wait is %s' % (
                    last_denial - T0, e[1] - last_denial, sc['wait'])
            last_denial = None if e[2] else e[1]
            if now - upd > P:
                thr = non = 0
                upd = now
            armed = bool(e[2])
            consults.append(e)
        else:
            if not armed:
                total = thr + non
                return ('submit_sm written at +%.4f without a consultation of its own answered True (window: %d of %d '
                        'responses throttled, sample_size %s, deny above %s %%)' % (e[1] - T0, thr, total, sc['sample'], sc['deny']))
            armed = False
            writes.append(e[1])
    # every submit response feeds the handler once, with the right kind
    fed = None
    for e in ev:
        if e[1] == 'feed':
            if fed is not None:
                return 'handler fed twice for one response'
            fed = e[2]
        elif e[1] == 'received' and e[2] in ('SubmitSmResp', 'GenericNack', None):
            cmd, st = struct.unpack('!II', e[3][4:12])
            if cmd in (0x80000004, 0x80000000):
                want = st in THROTTLED
                if fed is None or fed != want:
                    return 'response with status 0x%x handled, handler fed: %s' % (st, {None: 'not at all', True: 'throttled', False: 'not throttled'}[fed])
            fed = None
    # rate bound on the wire
    if sc['rate']:
        r = Fraction(sc['rate'])
        ws = [Fraction(w) for w in writes]
        for i in range(len(ws)):
            for j in range(i, len(ws)):
                if (j - i + 1) > r * (ws[j] - ws[i]) + r + 1:
                    return '%d submit_sm within %.4f s at rate %s/s' % (j - i + 1, float(ws[j] - ws[i]), sc['rate'])
    # never suspended otherwise: without a single denial everything queued is on the wire when the session is stopped
    total = sum(m['nseg'] for m in sc['msgs'])
    if all(c[2] for c in consults) and len(writes) != total:
        return '%d of %d submit_sm PDUs written by +%.1f although the handler never denied a request' % (len(writes), total, sc['_stop_at'])
    return None


def cases_of(sc):
    ev = run(sc)
    fail = predicate(sc, ev)
    g = gate_events(ev)
    head = '%s %s %s %s' % (fr(sc['period']), fr(sc['sample']), fr(sc['deny']), fr(sc['_t0']))
    words = []
    for e in g:
        words.append(('ft' if e[1] else 'fn') if e[0] == 'f' else ('c%s:%d' % (fr(e[1]), 1 if e[2] else 0)) if e[0] == 'c' else 'w')
    denied = any(e[0] == 'c' and not e[2] for e in g)
    between = False     # a response handled between a consultation and its write
    prev = None
    for e in g:
        if e[0] == 'f' and prev == 'c1':
            between = True
        prev = ('c1' if e[2] else 'c0') if e[0] == 'c' else (prev if e[0] == 'f' else 'w')
    sig = ('gate', denied, between, sc['rate'] is not None, sc['dput'] > 0, max(m['nseg'] for m in sc['msgs']) > 1,
           sum(1 for e in g if e[0] == 'w') > 5)
    inp = {'op': 'session-gate', 'scenario': {k: v for k, v in sc.items() if not k.startswith('_')}}
    out = [Case('gate.mon ' + head + ' ' + ' '.join(words), 'accept', sig, fail, inp)]
    if not sc['rate']:
        # nothing suspends between consultation and write: the Sender model reproduces the trace from its schedule
        total = sum(m['nseg'] for m in sc['msgs'])
        # up to the moment the application stops the session (after it a consultation may be followed by a failing write)
        cut = [i for i, e in enumerate(ev) if e[1] == 'stop-called']
        g = gate_events(ev[:cut[0]] if cut else ev)
        inps = [('rt' if e[1] else 'rn') if e[0] == 'f' else 't' + fr(e[1]) for e in g if e[0] != 'w']
        # the driver prints every rational as num/den
        canon = []
        for e in g:
            if e[0] == 'f':
                canon.append('ft' if e[1] else 'fn')
            elif e[0] == 'c':
                f = Fraction(e[1])
                canon.append('c%d/%d:%d' % (f.numerator, f.denominator, 1 if e[2] else 0))
            else:
                canon.append('w')
        out.append(Case('gate.sender %s %d %s' % (head, total, ' '.join(inps)), ('ok ' + ' '.join(canon)).rstrip(),
                        None, None, inp))
    return out


def generate(rng, tier):
    for _ in range(400 if tier == 'thorough' else 90):
        yield from cases_of(scenario(rng))
    # directed: everything throttled, small sample, segments with a slow store between them
    for nseg in (2, 4):
        for dput in (0.05, 0.3):
            for deny in (0.0, 50.0):
                sc = dict(msgs=[dict(at=0.5003, log='L1', nseg=nseg), dict(at=0.9003, log='L2', nseg=nseg)], period=10.0,
                          sample=2.0, deny=deny, wait=0.5, rate=None, dput=dput, p_thr=1.0, rdelay=0.01, hook='none', seed=7)
                yield from cases_of(sc)
