"""C09 — inbound reassembly: tier 2 correspondence through the real ESME._handle_request and
the order-independence predicate."""
import itertools
from vlib import Case
from corr.corrlib import CorrSim, nats, Q
from spec import smpp as wire
from spec import gsm as gspec

ID = 'C09'
TARGETS = ['SmppVerif.Props.C09']
THOROUGH_ROUNDS = 12
RULE = ('segmented deliver_sm histories through ESME._handle_request: all arrival permutations for 2..5 segments '
        '(6 in thorough), random permutations up to 255 segments, 2-3 interleaved messages with distinct references, '
        'SAR parameters / UDH 8-bit / UDH 16-bit built by an independent encoder, GSM and UCS2 payloads with surrogate '
        'pairs next to boundaries, short_message and message_payload carriers, duplicates, total=1. One model line per '
        'delivered segment plus store dumps. distinct-nontrivial = distinct (transport, alphabet, carrier, #segments '
        'bucket, #interleaved, order class: sorted/reversed/other, duplicates?)')
TRUSTED = ['Lean 4.33.0 kernel', 'axioms: propext, Quot.sound, Classical.choice',
           'tools/corr/corrlib.py (virtual clock, recording hook) and tools/spec/smpp.py (independent encoder)',
           'the atomic-handler view: a whole _handle_request is one step (interleavings are the session model\'s business)']
ASSUMPTIONS = ['messages are modelled by the fields the correlation logic reads',
               'per-segment texts are what the library\'s own decoder yields for the payload (C03/C04 cover decoding)']
EXHAUSTIVE = {'quick': False, 'thorough': False}


def seg_pdu(seq_no, transport, ref, total, sseq, piece, ucs2, payload_carrier, src=''):
    """(pdu bytes built independently, expected abstract fields)"""
    data = piece.encode('utf-16-be') if ucs2 else gspec.encode(piece)
    dc = 8 if ucs2 else 0
    tlvs = []
    esm = 0
    if transport == 'sar':
        body_sm = data
        import struct
        tlvs = [(wire.TAG_SAR_REF, struct.pack('!H', ref)), (wire.TAG_SAR_TOTAL, bytes([total])),
                (wire.TAG_SAR_SEQ, bytes([sseq]))]
    else:
        esm = 0x40
        body_sm = wire.udh_concat(ref, total, sseq, wide=(transport == 'udh16')) + data
    if payload_carrier:
        tlvs = [(wire.TAG_PAYLOAD, body_sm)] + tlvs
        body = wire.sm_body(src=(1, 1, src), esm_class=esm, data_coding=dc, short_message=b'', tlvs=tlvs)
    else:
        body = wire.sm_body(src=(1, 1, src), esm_class=esm, data_coding=dc, short_message=body_sm, tlvs=tlvs)
    return wire.pdu(wire.DELIVER_SM, 0, seq_no, body)


def absmsg(seq_no, ref, total, sseq, piece, payload_carrier):
    return ':'.join(['deliver', str(seq_no), '0', '0', '0', str(ref), str(sseq), str(total), '1', '-',
                     nats(piece), '0' if payload_carrier else '1', '0', '-', '~'])


def history(label, messages, order, sig, gaps=None):
    """messages: list of dict(ref, pieces, transport, ucs2, payload); order: list of (msg index, segment index)
    returns list of Case (one per line)"""
    from aiosmpplib.protocol import SmppMessage
    sim = CorrSim()
    cases = [Case(sim.first_line, 'ok', None)]
    got = {i: [] for i in range(len(messages))}
    fail = None
    now = 10
    seq_no = 100
    try:
        for (mi, si) in order:
            m = messages[mi]
            seq_no += 1
            # gaps: time between consecutive segments (quanta of 1/1024 s); the default is a few milliseconds
            now += (gaps[len(cases) - 1] if gaps and len(cases) - 1 < len(gaps) else 3)
            pdu = seg_pdu(seq_no, m['transport'], m['ref'], len(m['pieces']), si + 1, m['pieces'][si], m['ucs2'],
                          m['payload'], m.get('src', ''))
            sim.clock.q = now
            hdr = SmppMessage.parse_header(pdu[:16])
            try:
                res = sim.run(sim.esme._handle_request(pdu, hdr))
                out = 'ok' + sim.take_events() + ' H=' + sim._handled(res)
            except Exception as e:      # noqa
                res = None
                out = 'exc ' + type(e).__name__
                fail = fail or 'handler raised %r on segment %d of message %d' % (e, si + 1, mi)
            line = 'c.hdel %d %s' % (now, absmsg(seq_no, m['ref'], len(m['pieces']), si + 1, m['pieces'][si],
                                                 m['payload']))
            cases.append(Case(line, out, None))
            if res is None:
                got[mi].append(('dropped', None))
            elif res is sim.em._SUBMIT_SM_SEGMENT:
                got[mi].append(('placeholder', None))
            else:
                got[mi].append(('msg', res.short_message or res.message_payload))
        ln, out = sim.op_dump()
        # predicate: per message exactly one complete text, after the last distinct segment, never partial
        for mi, m in enumerate(messages):
            segs = [si for (x, si) in order if x == mi]
            if len(set(segs)) != len(segs) or len(set(segs)) != len(m['pieces']):
                continue        # duplicates / incomplete: outside the statement
            full = ''.join(m['pieces'])
            kinds = [k for k, _ in got[mi]]
            if fail is None:
                if kinds.count('msg') != 1 or kinds[-1] != 'msg' or any(k == 'dropped' for k in kinds):
                    fail = 'message %d (ref %d, %d segments): hook results %s' % (mi, m['ref'], len(segs), kinds[:12])
                elif got[mi][-1][1] != full:
                    fail = 'message %d reassembled to %r instead of %r' % (mi, got[mi][-1][1][:60], full[:60])
        cases.append(Case(ln, out, sig, fail, {'op': 'history', 'label': label, 'gaps': gaps,
                                               'messages': messages, 'order': [list(o) for o in order]}))
    finally:
        sim.close()
    return cases


def mk_pieces(n, ucs2, rng, kind):
    pieces = []
    for i in range(n):
        if ucs2:
            base = 'ж%dя' % i
            if kind == 'pairs':
                base = '\U0001F600' + base + '\U0001F601'
        else:
            base = 'p%d.' % i
            if kind == 'pairs':
                base = '€' + base + '['
        pieces.append(base * rng.choice((1, 1, 3)))
    return pieces


def order_class(order):
    segs = [s for _m, s in order]
    if segs == sorted(segs):
        return 'sorted'
    if segs == sorted(segs, reverse=True):
        return 'reversed'
    return 'other'


def generate(rng, tier):
    thorough = tier == 'thorough'
    transports = ('sar', 'udh8', 'udh16')
    # 1. all permutations, small n
    for n in range(1, 7 if thorough else 6):
        for perm in itertools.permutations(range(n)):
            tr = transports[(n + sum(perm[:2])) % 3]
            ucs2 = (perm[0] % 2 == 1)
            payload = (n % 2 == 0) and tr == 'sar'
            ref = {'sar': 7 + n, 'udh8': 200 + n, 'udh16': 300 + n * 1000}[tr]
            msgs = [dict(ref=ref, pieces=mk_pieces(n, ucs2, rng, 'pairs' if n % 2 else 'plain'), transport=tr,
                         ucs2=ucs2, payload=payload)]
            order = [(0, s) for s in perm]
            sig = (tr, ucs2, payload, min(n, 6), 1, order_class(order), False)
            yield from history('perm', msgs, order, sig)
    # 2. larger counts, random permutations, every transport
    sizes = (10, 11, 12, 20, 99, 100, 101, 254, 255) if thorough else (10, 11, 12, 25, 100, 255)
    for n in sizes:
        for tr in transports:
            for oc in ('sorted', 'reversed', 'random'):
                if not thorough and n > 25 and oc != 'random' and tr != 'udh8':
                    continue
                ucs2 = rng.random() < 0.5
                ref = {'sar': rng.randrange(0, 65536), 'udh8': rng.randrange(0, 256), 'udh16': rng.randrange(256, 65536)}[tr]
                msgs = [dict(ref=ref, pieces=mk_pieces(n, ucs2, rng, 'plain'), transport=tr, ucs2=ucs2, payload=False)]
                idx = list(range(n))
                if oc == 'reversed':
                    idx.reverse()
                elif oc == 'random':
                    rng.shuffle(idx)
                order = [(0, s) for s in idx]
                sig = (tr, ucs2, False, 10 if n < 50 else (100 if n < 200 else 255), 1, order_class(order), False)
                yield from history('big', msgs, order, sig)
    # 3. interleaved messages with distinct references
    for _ in range(300 if thorough else 80):
        k = rng.choice((2, 3))
        msgs = []
        refs = rng.sample(range(0, 256), k)
        for j in range(k):
            tr = rng.choice(transports)
            n = rng.randrange(2, 13)
            ucs2 = rng.random() < 0.5
            ref = refs[j] if tr != 'udh16' else 256 + refs[j] * 7
            msgs.append(dict(ref=ref, pieces=mk_pieces(n, ucs2, rng, rng.choice(('plain', 'pairs'))), transport=tr,
                             ucs2=ucs2, payload=(tr == 'sar' and rng.random() < 0.3)))
        order = [(j, s) for j, m in enumerate(msgs) for s in range(len(m['pieces']))]
        rng.shuffle(order)
        sig = ('mix', any(m['ucs2'] for m in msgs), any(m['payload'] for m in msgs), 10, k, order_class(order), False)
        yield from history('interleaved', msgs, order, sig)
    # 3b. two 16-bit references that share the low octet, interleaved
    for lo in (0x34, 0x00, 0xFF):
        msgs = [dict(ref=0x1200 + lo, pieces=mk_pieces(3, True, rng, 'pairs'), transport='udh16', ucs2=True, payload=False),
                dict(ref=0x5600 + lo, pieces=mk_pieces(4, False, rng, 'plain'), transport='udh16', ucs2=False, payload=False)]
        order = [(0, 0), (1, 3), (0, 2), (1, 0), (1, 1), (0, 1), (1, 2)]
        yield from history('lowbyte', msgs, order, ('udh16', True, False, 4, 2, 'other', False))
    # 3c. boundary reference numbers: 0 and the largest of each width, with every transport
    for tr, ref in (('sar', 0), ('udh8', 0), ('udh16', 0), ('sar', 255), ('udh8', 255), ('sar', 65535), ('udh16', 65535),
                    ('udh16', 256), ('sar', 1)):
        n = rng.randrange(3, 6)
        ucs2 = rng.random() < 0.5
        msgs = [dict(ref=ref, pieces=mk_pieces(n, ucs2, rng, 'plain'), transport=tr, ucs2=ucs2, payload=False)]
        idx = list(range(n))
        rng.shuffle(idx)
        order = [(0, s2) for s2 in idx]
        yield from history('boundary-ref', msgs, order, (tr, ucs2, False, n, 1, 'ref%d' % ref, False))
    # 3d. senders and references whose decimal notations run into each other (38599 + 12 / 385991 + 2 / 3859 + 912 ...):
    #     different references, so different messages, whoever sends them
    for _ in range(30 if thorough else 10):
        pool = [('38599', 12), ('385991', 2), ('3859', 912), ('38', 59912), ('3', 859912 % 65536)]
        rng.shuffle(pool)
        k = rng.choice((2, 3))
        msgs = []
        for (num, ref) in pool[:k]:
            n = rng.randrange(2, 6)
            ucs2 = rng.random() < 0.5
            msgs.append(dict(ref=ref, pieces=mk_pieces(n, ucs2, rng, 'plain'), transport=rng.choice(('sar', 'udh16')), ucs2=ucs2,
                             payload=False, src=num))
        order = [(j, s2) for j, m in enumerate(msgs) for s2 in range(len(m['pieces']))]
        rng.shuffle(order)
        yield from history('senders', msgs, order, ('senders', k, order_class(order)))
    # 3e. a long pause between two segments of one message (longer than the response time-to-live of 15 s, far below the
    #     delivery time-to-live of 100 s): an SMSC retrying one segment
    for _ in range(30 if thorough else 10):
        n = rng.randrange(2, 6)
        tr = rng.choice(transports)
        ucs2 = rng.random() < 0.5
        ref = {'sar': 77, 'udh8': 78, 'udh16': 7900}[tr]
        msgs = [dict(ref=ref, pieces=mk_pieces(n, ucs2, rng, 'plain'), transport=tr, ucs2=ucs2, payload=False)]
        idx = list(range(n))
        rng.shuffle(idx)
        order = [(0, s2) for s2 in idx]
        gaps = [3] * n
        gaps[rng.randrange(1, n)] = rng.choice((16 * Q, 20 * Q, 40 * Q))
        yield from history('pause', msgs, order, ('pause', tr, ucs2, n), gaps)
    # 3f. a long message trickling in: every gap well inside the delivery time-to-live (100 s), the whole far beyond it
    #     (each segment renews the entry), interleaved with a short message
    for _ in range(12 if thorough else 4):
        n = rng.choice((6, 9, 14))
        tr = rng.choice(transports)
        ucs2 = rng.random() < 0.5
        ref = {'sar': 81, 'udh8': 82, 'udh16': 8300}[tr]
        msgs = [dict(ref=ref, pieces=mk_pieces(n, ucs2, rng, 'plain'), transport=tr, ucs2=ucs2, payload=False),
                dict(ref=ref + 1, pieces=mk_pieces(2, False, rng, 'plain'), transport=tr, ucs2=False, payload=False)]
        idx = list(range(n))
        rng.shuffle(idx)
        order = [(0, s2) for s2 in idx]
        at = rng.randrange(1, n)
        order.insert(at, (1, 0))
        order.insert(at + 1, (1, 1))          # (the short message's own segments are one gap apart)
        # (any three consecutive gaps stay below the 100 s: the short message sits between two segments of the long one)
        gaps = [rng.choice((20 * Q, 25 * Q, 30 * Q)) for _ in order]
        yield from history('trickle', msgs, order, ('trickle', tr, ucs2, n), gaps)
    # 4. duplicates (outside the statement; correspondence only)
    for _ in range(40 if thorough else 15):
        n = rng.randrange(2, 6)
        msgs = [dict(ref=9, pieces=mk_pieces(n, False, rng, 'plain'), transport='sar', ucs2=False, payload=False)]
        order = [(0, s) for s in range(n)]
        order.insert(rng.randrange(len(order)), (0, rng.randrange(n)))
        yield from history('dup', msgs, order, ('sar', False, False, n, 1, 'other', True))


def replay(inp):
    cases = history(inp['label'], inp['messages'], [tuple(o) for o in inp['order']], None, inp.get('gaps'))
    last = cases[-1]
    # replay shows the whole history as one line block
    last.line = '\n'.join(c.line for c in cases)
    last.out = '\n'.join(c.out for c in cases)
    return last


def classify(case):
    return None
