"""C14 — response time-out: tier 2 correspondence on a virtual clock and the timing predicate."""
from vlib import Case
from corr.corrlib import CorrSim, Q

ID = 'C14'
TARGETS = ['SmppVerif.Props.C14']
RULE = ('histories of put(submit | segment | enquire_link) / get(response) / handler calls on a virtual clock with ttl in '
        '{1 s, 2.5 s, 15 s}: responses and probes at ttl-1, ttl, ttl+1 quanta and at random offsets, 1..12 outstanding '
        'requests, segmented messages among them, a far-future probe at the end; one model line per operation plus store '
        'dumps. distinct-nontrivial = distinct (ttl class, #outstanding bucket, any answered in time?, any expired?, any '
        'segmented?, probe offset class); plus interleaved histories: 1..5 overdue requests with a sweep of another task or a late '
        'response handled while the first time-out notification is suspended (predicate only)')
TRUSTED = ['Lean 4.33.0 kernel', 'axioms: propext, Quot.sound',
           'tools/corr/corrlib.py: time.monotonic of correlator.py replaced by a virtual clock in quanta of 1/1024 s '
           '(floats exact); recording hook']
ASSUMPTIONS = ['a correlator operation (with the hook calls it awaits) is one atomic step; the keep-alive task that '
               'produces the periodic put is part of the session model (C16)',
               'time is read once per operation (the code reads it in _remove_expired and again when storing: equal '
               'on the virtual clock unless a hook suspends, which is a session-level matter)']
EXHAUSTIVE = {'quick': False, 'thorough': False}


def history(rng, ttl_q, n_msgs, seg, sig_extra):
    sim = CorrSim(ttl_resp_q=ttl_q)
    cases = [Case(sim.first_line, 'ok', None)]
    fail = None
    try:
        # ---- schedule: (time, order, what, args), executed in time order -----------------------
        t = 50
        seqno = 0
        sched = []
        sent = {}           # seq -> (put time, log token, plain?)
        segmsgs = {}        # log -> [(seq, put time, in-time response time or None)]
        for i in range(n_msgs):
            t += rng.choice((0, 1, 7, ttl_q // 3))
            log = 100 + i
            if seg and i % 3 == 0:
                tot = rng.choice((2, 3))
                # the segments of one message are written at different instants (rate limiter, slow hook, back-pressure);
                # each is a request of its own with its own time-to-live
                gap = rng.choice((0, 0, 1, ttl_q // 3, ttl_q - 1, ttl_q // 2))
                answer = rng.randrange(3)          # 0: none answered, 1: all in time, 2: some
                for k in range(tot):
                    seqno += 1
                    tk = t + k * gap
                    sched.append((tk, len(sched), 'put', (seqno, log, (9 + i, k + 1, tot))))
                    sent[seqno] = (tk, log, False)
                    if answer == 1 or (answer == 2 and rng.random() < 0.5):
                        off = rng.choice((1, 5, ttl_q // 2, ttl_q - 1)) if answer == 1 else rng.choice((5, ttl_q - 1, ttl_q + 1))
                        sched.append((tk + off, len(sched), 'resp', (seqno, False)))
                    segmsgs.setdefault(log, []).append((seqno, tk, (tk + off) if answer == 1 else None))
                t += (tot - 1) * gap
            else:
                seqno += 1
                sched.append((t, len(sched), 'put', (seqno, log, None)))
                sent[seqno] = (t, log, True)
                if rng.randrange(5) < 3:
                    off = (ttl_q - 1, ttl_q, ttl_q + 1, rng.randrange(1, 2 * ttl_q), 5)[rng.randrange(5)]
                    sched.append((t + off, len(sched), 'resp', (seqno, rng.random() < 0.5)))
        last = t
        for _ in range(rng.randrange(1, 5)):
            base = rng.choice(list(sent.values()))[0]
            sched.append((base + rng.choice((ttl_q - 1, ttl_q, ttl_q + 1, ttl_q + 50, 3)), len(sched), 'probe', None))
        sched.append((last + 5 * ttl_q, len(sched), 'probe', None))
        sched.sort(key=lambda p: (p[0], p[1]))
        probe_seq = 100000
        events = []
        answered = {}
        op_times = []
        for (pt, _o, what, args) in sched:
            if what == 'put':
                sq, log, sar = args
                ln, out = sim.op_put(pt, sim.submit(sq, log, 0, sar=sar))
            elif what == 'resp':
                sq, via_get = args
                r = sim.resp('submitresp', sq, 0, 'id%d' % sq)
                if via_get:
                    ln, out = sim.op_get(pt, r)
                    if ' R=submit' in out:
                        answered[sq] = pt
                else:
                    ln, out, _res = sim.op_hresp(pt, r)
                    if ' H=msg submitresp:%d:0:%d:' % (sq, sent[sq][1]) in out:
                        answered[sq] = pt
            else:
                probe_seq += 1
                ln, out = sim.op_put(pt, sim.request('enq', probe_seq))
            cases.append(Case(ln, out, None))
            op_times.append(pt)
            for ev in out.split(' ')[1:]:
                if ev.startswith('E='):
                    events.append((pt, ev))
        ln, out = sim.op_dump()
        # ---- timing predicate on the real code's hook log (plain messages) -------------------
        any_answered = any_expired = False
        for sq, (t0, log, plain) in sent.items():
            if not plain:
                continue
            errs = [et for (et, ev) in events if ev.startswith('E=submit:%d:' % sq)]
            first_op_after = min([pt for pt in op_times if pt - t0 > ttl_q], default=None)
            if sq in answered:
                any_answered = True
                if errs and fail is None:
                    fail = 'request %d answered at +%d (ttl %d) was also reported as timed out' % (
                        sq, answered[sq] - t0, ttl_q)
            else:
                any_expired = True
                if fail is None:
                    if len(errs) != 1:
                        fail = 'request %d unanswered: %d time-out reports (expected exactly 1)' % (sq, len(errs))
                    elif errs[0] - t0 <= ttl_q:
                        fail = 'request %d reported as timed out after %d <= ttl %d quanta' % (sq, errs[0] - t0, ttl_q)
                    elif first_op_after is not None and errs[0] > first_op_after:
                        fail = 'request %d: time-out reported at %d, later than the first operation after expiry (%d)' % (
                            sq, errs[0], first_op_after)
        # a segmented message whose every segment was answered within that segment's own time-to-live is never
        # reported as timed out
        for log, segs in segmsgs.items():
            if all(rt is not None for (_s, _t, rt) in segs) and fail is None:
                errs = [(et, ev) for (et, ev) in events if any(ev.startswith('E=submit:%d:' % sq) for (sq, _t, _r) in segs)]
                if errs:
                    fail = ('segmented message %d: every segment answered within the time-to-live of its own sending '
                            '(%s, ttl %d), yet reported as timed out at %d' % (
                                log, ', '.join('seq %d sent %d answered %d' % x for x in segs), ttl_q, errs[0][0]))
        sig = ('ttl%d' % (ttl_q // Q), min(n_msgs, 4) if n_msgs < 4 else (8 if n_msgs < 9 else 12), any_answered,
               any_expired, seg) + sig_extra
        cases.append(Case(ln, out, sig, fail, {'op': 'history', 'ttl': ttl_q, 'lines': [c.line for c in cases[1:]]}))
    finally:
        sim.close()
    return cases


def nested_history(ttl_q, offset):
    """one overdue request; while its time-out notification is suspended another correlator
    operation (a sweep) runs: it must not be reported a second time"""
    sim = CorrSim(ttl_resp_q=ttl_q)
    sim.nested_sweep = True
    cases = [Case(sim.first_line, 'ok', None)]
    try:
        ln, out = sim.op_put(100, sim.submit(1, 55, 0))
        cases.append(Case(ln, out, None))
        ln, out = sim.op_put(100 + ttl_q + offset, sim.request('enq', 2))
        n = out.count('E=submit:1:')
        fail = None if n == 1 else 'request 1 unanswered: %d time-out reports with a sweep interleaved in the notification' % n
        cases.append(Case(ln, out, ('nested', ttl_q // Q, offset), fail,
                          {'op': 'nested', 'ttl': ttl_q, 'offset': offset}))
    finally:
        sim.close()
    return cases


def interleaved_history(ttl_q, k, what, which):
    """k overdue requests; while the time-out notification of the first one reported is suspended, another task's
    correlator operation runs to completion: a sweep, or the receiver handling a late response (for the request being
    reported, for another overdue one, for a number nobody uses).  Every request must end up with exactly one
    outcome.  No model line (the tier 2 model has atomic operations): predicate only."""
    from aiosmpplib.protocol import SmppMessage
    sim = CorrSim(ttl_resp_q=ttl_q)
    nested = {}
    try:
        for i in range(1, k + 1):
            sim.op_put(100 + i, sim.submit(i, 50 + i, 0))

        async def op(reported):
            if what == 'sweep':
                await sim.corr._remove_expired()
                return
            target = {'self': reported.sequence_num, 'unknown': 9999}.get(
                what, 1 + (reported.sequence_num - 1 + which) % k)
            r = sim.resp('submitresp', target, 0, 'id%d' % target)
            pdu = r.pdu()
            res = await sim.esme._handle_response(pdu, SmppMessage.parse_header(pdu[:16]))
            nested['target'] = target
            nested['log'] = getattr(res, 'log_id', '') if res is not None and res is not sim.em._SUBMIT_SM_SEGMENT else ''
        sim.nested_op = op
        _ln, out = sim.op_put(100 + k + ttl_q + 5, sim.request('enq', 5000))
        # a later operation gives stragglers their chance
        _ln2, out2 = sim.op_put(100 + k + ttl_q + 50, sim.request('enq', 5001))
        out = out + out2
        fail = None
        for i in range(1, k + 1):
            n_to = out.count('E=submit:%d:' % i)
            n_resp = 1 if nested.get('log') == 'L%d' % (50 + i) else 0
            if n_to + n_resp != 1 and fail is None:
                fail = ('request %d of %d overdue ones: %d time-out reports and %d attributed responses, with %s interleaved in the '
                        'first notification' % (i, k, n_to, n_resp, 'a sweep' if what == 'sweep' else 'the late response for request %s' % nested.get('target')))
        line = '# interleaved %d %d %s %d' % (ttl_q, k, what, which)
        return [Case(line, line, ('interleaved', k if k < 3 else 3, what), fail,
                     {'op': 'interleaved', 'ttl': ttl_q, 'k': k, 'what': what, 'which': which})]
    finally:
        sim.close()


def generate(rng, tier):
    thorough = tier == 'thorough'
    for ttl in (Q, 15 * Q):
        for off in (1, 2, 500):
            yield from nested_history(ttl, off)
        for k in (1, 2, 3, 5):
            for what in ('sweep', 'self', 'other', 'unknown'):
                for which in ((1, 2) if what == 'other' and k > 2 else (1,)):
                    yield from interleaved_history(ttl, k, what, which)
    for _ in range(1200 if thorough else 300):
        ttl = rng.choice((Q, Q * 5 // 2, 15 * Q))
        n = rng.randrange(1, 13)
        yield from history(rng, ttl, n, rng.random() < 0.4, ())


def replay(inp):
    if inp.get('op') == 'interleaved':
        return interleaved_history(inp['ttl'], inp['k'], inp['what'], inp['which'])[-1]
    if inp.get('op') == 'nested':
        return nested_history(inp['ttl'], inp['offset'])[-1]
    # a recorded history is replayed on the model only (the real run needs the generator's seed)
    return Case('\n'.join(['c.new 15360 102400'] + inp.get('lines', [])), '', None, None, inp)


def classify(case):
    return None
