"""C14 — response time-out: tier 2 correspondence on a virtual clock and the timing predicate."""
from vlib import Case
from corr.corrlib import CorrSim, Q

ID = 'C14'
TARGETS = ['SmppVerif.Props.C14']
THOROUGH_ROUNDS = 8
RULE = ('histories of put(submit | segment | enquire_link) / get(response) / handler calls on a virtual clock with ttl in '
        '{1 s, 2.5 s, 15 s}: responses and probes at ttl-1, ttl, ttl+1 quanta and at random offsets, 1..12 outstanding '
        'requests, segmented messages among them, a far-future probe at the end; one model line per operation plus store '
        'dumps. distinct-nontrivial = distinct (ttl class, #outstanding bucket, any answered in time?, any expired?, any '
        'segmented?, probe offset class); plus interleaved histories: 1..5 overdue requests with a sweep of another task or a late '
        'response handled while the first time-out notification is suspended (predicate only)')
TRUSTED = ['Lean 4.33.0 kernel', 'axioms: propext, Quot.sound',
           'tools/corr/corrlib.py: time.monotonic of correlator.py replaced by a virtual clock in quanta of 1/1024 s '
           '(floats exact); recording hook']
ASSUMPTIONS = ['a correlator operation (with the hook calls it awaits) is one atomic step; the keep-alive task that '
               'produces the periodic put is part of the session model (C16)',
               'time is read once per operation (the code reads it in _remove_expired and again when storing: equal '
               'on the virtual clock unless a hook suspends, which is a session-level matter)']
EXHAUSTIVE = {'quick': False, 'thorough': False}


def history(rng, ttl_q, n_msgs, seg, sig_extra):
    sim = CorrSim(ttl_resp_q=ttl_q)
    cases = [Case(sim.first_line, 'ok', None)]
    fail = None
    try:
        # ---- schedule: (time, order, what, args), executed in time order -----------------------
        t = 50
        seqno = 0
        sched = []
        sent = {}           # seq -> (put time, log token, plain?)
        segmsgs = {}        # log -> [(seq, put time, in-time response time or None)]
        for i in range(n_msgs):
            t += rng.choice((0, 1, 7, ttl_q // 3))
            log = 100 + i
            if seg and i % 3 == 0:
                tot = rng.choice((2, 3))
                # the segments of one message are written at different instants (rate limiter, slow hook, back-pressure);
                # each is a request of its own with its own time-to-live
                gap = rng.choice((0, 0, 1, ttl_q // 3, ttl_q - 1, ttl_q // 2))
                answer = rng.randrange(3)          # 0: none answered, 1: all in time, 2: some
                for k in range(tot):
                    seqno += 1
                    tk = t + k * gap
                    sched.append((tk, len(sched), 'put', (seqno, log, (9 + i, k + 1, tot))))
                    sent[seqno] = (tk, log, False)
                    if answer == 1 or (answer == 2 and rng.random() < 0.5):
                        off = rng.choice((1, 5, ttl_q // 2, ttl_q - 1)) if answer == 1 else rng.choice((5, ttl_q - 1, ttl_q + 1))
                        sched.append((tk + off, len(sched), 'resp', (seqno, False)))
                    segmsgs.setdefault(log, []).append((seqno, tk, (tk + off) if answer == 1 else None))
                t += (tot - 1) * gap
            else:
                seqno += 1
                sched.append((t, len(sched), 'put', (seqno, log, None)))
                sent[seqno] = (t, log, True)
                if rng.randrange(5) < 3:
                    off = (ttl_q - 1, ttl_q, ttl_q + 1, rng.randrange(1, 2 * ttl_q), 5)[rng.randrange(5)]
                    sched.append((t + off, len(sched), 'resp', (seqno, rng.random() < 0.5)))
        last = t
        for _ in range(rng.randrange(1, 5)):
            base = rng.choice(list(sent.values()))[0]
            sched.append((base + rng.choice((ttl_q - 1, ttl_q, ttl_q + 1, ttl_q + 50, 3)), len(sched), 'probe', None))
        sched.append((last + 5 * ttl_q, len(sched), 'probe', None))
        sched.sort(key=lambda p: (p[0], p[1]))
        probe_seq = 100000
        events = []
        answered = {}
        op_times = []
        for (pt, _o, what, args) in sched:
            if what == 'put':
                sq, log, sar = args
                ln, out = sim.op_put(pt, sim.submit(sq, log, 0, sar=sar))
            elif what == 'resp':
                sq, via_get = args
                r = sim.resp('submitresp', sq, 0, 'id%d' % sq)
                if via_get:
                    ln, out = sim.op_get(pt, r)
                    if ' R=submit' in out:
                        answered[sq] = pt
                else:
                    ln, out, _res = sim.op_hresp(pt, r)
                    if ' H=msg submitresp:%d:0:%d:' % (sq, sent[sq][1]) in out:
                        answered[sq] = pt
            else:
                probe_seq += 1
                ln, out = sim.op_put(pt, sim.request('enq', probe_seq))
            cases.append(Case(ln, out, None))
            op_times.append(pt)
            for ev in out.split(' ')[1:]:
                if ev.startswith('E='):
                    events.append((pt, ev))
        ln, out = sim.op_dump()
        # ---- timing predicate on the real code's hook log (plain messages) -------------------
        any_answered = any_expired = False
        for sq, (t0, log, plain) in sent.items():
            if not plain:
                continue
            errs = [et for (et, ev) in events if ev.startswith('E=submit:%d:' % sq)]
            first_op_after = min([pt for pt in op_times if pt - t0 > ttl_q], default=None)
            if sq in answered:
                any_answered = True
                if errs and fail is None:
                    fail = 'request %d answered at +%d (ttl %d) was also reported as timed out' % (
                        sq, answered[sq] - t0, ttl_q)
            else:
                any_expired = True
                if fail is None:
                    if len(errs) != 1:
                        fail = 'request %d unanswered: %d time-out reports (expected exactly 1)' % (sq, len(errs))
                    elif errs[0] - t0 <= ttl_q:
                        fail = 'request %d reported as timed out after %d <= ttl %d quanta' % (sq, errs[0] - t0, ttl_q)
                    elif first_op_after is not None and errs[0] > first_op_after:
                        fail = 'request %d: time-out reported at %d, later than the first operation after expiry (%d)' % (
                            sq, errs[0], first_op_after)
        # a segmented message whose every segment was answered within that segment's own time-to-live is never
        # reported as timed out
        for log, segs in segmsgs.items():
            if all(rt is not None for (_s, _t, rt) in segs) and fail is None:
                errs = [(et, ev) for (et, ev) in events if any(ev.startswith('E=submit:%d:' % sq) for (sq, _t, _r) in segs)]
                if errs:
                    fail = ('segmented message %d: every segment answered within the time-to-live of its own sending '
                            '(%s, ttl %d), yet reported as timed out at %d' % (
                                log, ', '.join('seq %d sent %d answered %d' % x for x in segs), ttl_q, errs[0][0]))
        sig = ('ttl%d' % (ttl_q // Q), min(n_msgs, 4) if n_msgs < 4 else (8 if n_msgs < 9 else 12), any_answered,
               any_expired, seg) + sig_extra
        cases.append(Case(ln, out, sig, fail, {'op': 'history', 'ttl': ttl_q, 'lines': [c.line for c in cases[1:]]}))
    finally:
        sim.close()
    return cases


def nested_history(ttl_q, offset):
    """one overdue request; while its time-out notification is suspended another correlator
    operation (a sweep) runs: it must not be reported a second time"""
    sim = CorrSim(ttl_resp_q=ttl_q)
    sim.nested_sweep = True
    cases = [Case(sim.first_line, 'ok', None)]
    try:
        ln, out = sim.op_put(100, sim.submit(1, 55, 0))
        cases.append(Case(ln, out, None))
        ln, out = sim.op_put(100 + ttl_q + offset, sim.request('enq', 2))
        n = out.count('E=submit:1:')
        fail = None if n == 1 else 'request 1 unanswered: %d time-out reports with a sweep interleaved in the notification' % n
        cases.append(Case(ln, out, ('nested', ttl_q // Q, offset), fail,
                          {'op': 'nested', 'ttl': ttl_q, 'offset': offset}))
    finally:
        sim.close()
    return cases


def interleaved_history(ttl_q, k, what, which):
    """k overdue requests; while the time-out notification of the first one reported is suspended, another task's
    correlator operation runs to completion: a sweep, or the receiver handling a late response (for the request being
    reported, for another overdue one, for a number nobody uses).  Every request must end up with exactly one
    outcome.  No model line (the tier 2 model has atomic operations): predicate only."""
    from aiosmpplib.protocol import SmppMessage
    sim = CorrSim(ttl_resp_q=ttl_q)
    nested = {}
    try:
        for i in range(1, k + 1):
            sim.op_put(100 + i, sim.submit(i, 50 + i, 0))

        async def op(reported):
            if what == 'sweep':
                await sim.corr._remove_expired()
                return
            target = {'self': reported.sequence_num, 'unknown': 9999}.get(
                what, 1 + (reported.sequence_num - 1 + which) % k)
            r = sim.resp('submitresp', target, 0, 'id%d' % target)
            pdu = r.pdu()
            res = await sim.esme._handle_response(pdu, SmppMessage.parse_header(pdu[:16]))
            nested['target'] = target
            nested['log'] = getattr(res, 'log_id', '') if res is not None and res is not sim.em._SUBMIT_SM_SEGMENT else ''
        sim.nested_op = op
        fail = None
        out = ''
        try:
            _ln, out = sim.op_put(100 + k + ttl_q + 5, sim.request('enq', 5000))
            # a later operation gives stragglers their chance
            _ln2, out2 = sim.op_put(100 + k + ttl_q + 50, sim.request('enq', 5001))
            out = out + out2
        except Exception as e:      # noqa
            # put() of the next request raised: the operation that swept was broken by the one interleaved with it
            fail = ('storing the next request raised %s(%s) with %s interleaved in the first time-out notification of %d overdue '
                    'requests' % (type(e).__name__, e, 'a sweep' if what == 'sweep' else 'the late response for request %s'
                                  % nested.get('target'), k))
        for i in range(1, k + 1):
            n_to = out.count('E=submit:%d:' % i)
            n_resp = 1 if nested.get('log') == 'L%d' % (50 + i) else 0
            if n_to + n_resp != 1 and fail is None:
                fail = ('request %d of %d overdue ones: %d time-out reports and %d attributed responses, with %s interleaved in the '
                        'first notification' % (i, k, n_to, n_resp, 'a sweep' if what == 'sweep' else 'the late response for request %s' % nested.get('target')))
        line = '# interleaved %d %d %s %d' % (ttl_q, k, what, which)
        return [Case(line, line, ('interleaved', k if k < 3 else 3, what), fail,
                     {'op': 'interleaved', 'ttl': ttl_q, 'k': k, 'what': what, 'which': which})]
    finally:
        sim.close()


def cancel_history(ttl_q, k, which):
    """k overdue requests; the operation whose sweep reports them is CANCELLED while the notification of request `which`
    is suspended in the application's hook (the session ends: the task is cancelled).  The next operation sweeps again:
    in the end every one of the k requests has been reported exactly once.  No model line (the turn-level model has no
    cancellation): predicate only."""
    import asyncio
    sim = CorrSim(ttl_resp_q=ttl_q)
    fail = None
    try:
        for i in range(1, k + 1):
            sim.op_put(100 + i, sim.submit(i, 50 + i, 0))
        sim.clock.q = 100 + k + ttl_q + 5
        state = {'n': 0, 'task': None}
        blocker = sim.loop.create_future()

        async def gate(_m):
            state['n'] += 1
            if state['n'] == which:
                await blocker               # never released: the task is cancelled here
        sim.gate = gate

        async def scenario():
            task = sim.loop.create_task(sim.corr.put(sim.request('enq', 5000)))
            for _ in range(50):
                await asyncio.sleep(0)
            task.cancel()
            try:
                await task
            except BaseException:      # noqa
                pass
            sim.gate = None
            sim.clock.q += 50
            await sim.corr.put(sim.request('enq', 5001))
        sim.run(scenario())
        out = sim.take_events()
        for i in range(1, k + 1):
            n_to = out.count('E=submit:%d:' % i)
            if n_to != 1 and fail is None:
                fail = ('request %d of %d overdue ones was reported as timed out %d times: the sweep that reported them was cancelled '
                        'during the notification of the %s one it reported, the next operation swept again' % (
                            i, k, n_to, {1: 'first', 2: 'second', 3: 'third'}.get(which, '%dth' % which)))
    except Exception as e:      # noqa
        fail = 'the scenario raised %r' % (e,)
    finally:
        sim.close()
    line = '# cancelled-sweep %d %d %d' % (ttl_q, k, which)
    return [Case(line, line, ('cancelled-sweep', min(k, 3), which), fail, {'op': 'cancelled-sweep', 'ttl': ttl_q, 'k': k, 'which': which})]


def sched_history(rng, ttl_q, fixed=None, mixed=False):
    """correlator operations interleaved at their suspension points under a schedule drawn by the harness: every
    send_error hook call blocks until the schedule resumes its operation; meanwhile other operations (put of a probe or
    of a new request, get for a late / in-time / unknown response) start and suspend in turn.  The same schedule is run
    through the turn-level model (Model/SweepTasks.lean, op c.sched); hook calls in order, matches and the final stores
    are compared."""
    import asyncio
    sim = CorrSim(ttl_resp_q=ttl_q)
    cases = [Case(sim.first_line, 'ok', None)]
    try:
        k = rng.randrange(1, 6)
        t = 100
        put_at = {}
        # mixed: what is in the store when the operations start is not only unsegmented submit_sm: keep-alive probes and
        # the segments of one message too - sweeping those out calls no hook (a probe: never; a segment: only the one that
        # settles its message), so the sweep does not give up control there
        shapes = ['plain'] * k
        if mixed:
            shapes = [rng.choice(('plain', 'probe', 'seg', 'seg')) for _ in range(k)]
            if fixed:
                shapes = list(fixed)[:k] + shapes[len(fixed):]
            n_seg = shapes.count('seg')
            if n_seg == 1:
                shapes[shapes.index('seg')] = 'probe'
                n_seg = 0
        seg_no = 0
        submits = []
        for i in range(1, k + 1):
            t += rng.choice((1, 1, ttl_q // 2))
            if shapes[i - 1] == 'probe':
                msg = sim.request('enq', i)
            elif shapes[i - 1] == 'seg':
                seg_no += 1
                msg = sim.submit(i, 50, 0, sar=(7, seg_no, n_seg))
                submits.append(i)
            else:
                msg = sim.submit(i, 50 + i, 0)
                submits.append(i)
            ln, out = sim.op_put(t, msg)
            put_at[i] = t
            cases.append(Case(ln, out, None))
        if not submits:
            submits = [900]         # nothing a submit_sm_resp could belong to: the responses are for unknown numbers
        clock = t + rng.choice((1, ttl_q // 2, ttl_q + 5, 2 * ttl_q))
        n_ops = rng.randrange(1, 5)
        ops = []
        for j in range(n_ops):
            kind = rng.choice(('probe', 'probe', 'submit', 'resp', 'resp', 'resp-unknown'))
            if kind == 'probe':
                ops.append(('P', sim.request('enq', 5000 + j)))
            elif kind == 'submit':
                ops.append(('P', sim.submit(20 + j, 80 + j, 0)))
            elif kind == 'resp':
                ops.append(('G', sim.resp('submitresp', rng.choice(submits) if mixed else rng.randrange(1, k + 1), 0, 'idx')))
            else:
                ops.append(('G', sim.resp('submitresp', 900 + j, 0, 'idy')))
        loop = sim.loop
        state = {'cur': None, 'suspended': [], 'results': {}}   # suspended: [(op index, future)] in model order

        async def gate(_m):
            fut = loop.create_future()
            cur = state['cur']
            # the model appends a task when it suspends for the first time and keeps its place afterwards
            for idx, (oi, _f) in enumerate(state['suspended']):
                if oi == cur:
                    state['suspended'][idx] = (oi, fut)
                    break
            else:
                state['suspended'].append((cur, fut))
            await fut
        sim.gate = gate
        evs = []
        tasks = {}

        async def settle():
            for _ in range(50):
                await asyncio.sleep(0)

        async def run_op(oi):
            kind, msg = ops[oi]
            try:
                if kind == 'P':
                    await sim.corr.put(msg)
                else:
                    r = await sim.corr.get(msg)
                    state['results'][oi] = r
            except Exception as e:      # noqa
                # an operation broken by the ones interleaved with it: an observation, not a failure of the harness
                state.setdefault('raised', {})[oi] = '%s(%s)' % (type(e).__name__, e)
            finally:
                # finished: no longer among the suspended ones
                state['suspended'] = [(o, f) for (o, f) in state['suspended'] if o != oi]

        async def scheduler():
            nonlocal clock
            nxt = 0
            while nxt < len(ops) or state['suspended']:
                choices = []
                if nxt < len(ops):
                    choices += ['start', 'start']
                if state['suspended']:
                    choices += ['resume']
                    # a suspended put may be cancelled (its task's session ended): no more turns for it
                    if any(ops[o][0] == 'P' for o, _f in state['suspended']):
                        choices += ['cancel']
                c = rng.choice(choices)
                clock += rng.choice((0, 0, 1, ttl_q // 3))
                sim.clock.q = clock
                if c == 'start':
                    oi = nxt
                    nxt += 1
                    state['cur'] = oi
                    state.setdefault('started_at', {})[oi] = clock
                    evs.append('%s@%d@%s' % (ops[oi][0], clock, sim.show(ops[oi][1])))
                    tasks[oi] = loop.create_task(run_op(oi))
                elif c == 'cancel':
                    idx = rng.choice([j for j, (o, _f) in enumerate(state['suspended']) if ops[o][0] == 'P'])
                    oi, fut = state['suspended'][idx]
                    evs.append('X@%d' % idx)
                    tasks[oi].cancel()
                    try:
                        await tasks[oi]
                    except BaseException:      # noqa
                        pass
                    state['suspended'] = [(o, f) for (o, f) in state['suspended'] if o != oi]
                else:
                    idx = rng.randrange(len(state['suspended']))
                    oi, fut = state['suspended'][idx]
                    state['cur'] = oi
                    evs.append('R@%d@%d' % (idx, clock))
                    if not fut.done():
                        fut.set_result(None)
                await settle()
            for tk in tasks.values():
                try:
                    await tk
                except BaseException:      # noqa
                    pass
        sim.run(scheduler())
        sim.gate = None
        ev_str = sim.take_events()
        marks = []
        for oi, (kind, msg) in enumerate(ops):
            if kind == 'G':
                r = state['results'].get(oi)
                marks.append((msg.sequence_num, ' %s=%d' % ('U' if r is None else 'M', msg.sequence_num)))
        real = 'ok' + ev_str + ''.join(mk for _q, mk in sorted(marks)) + ' tasks=0'
        for oi, what_ in sorted(state.get('raised', {}).items()):
            real += ' X=%d:%s' % (oi, what_.split('(')[0])
        # predicate: every request 1..k has at most one outcome (time-out report or matched response), and a report only
        # after its time-to-live
        fail = None
        if state.get('raised'):
            oi, what_ = sorted(state['raised'].items())[0]
            fail = 'correlator operation %d (%s) raised %s under the schedule %s' % (
                oi, 'put' if ops[oi][0] == 'P' else 'get', what_, ' '.join(e.split('@')[0] + '@' + e.split('@')[1] for e in evs))
        # a response that arrives within the time-to-live of its request finds it: the lookup is made when the response
        # arrives, whatever the sweep of that very operation has to wait for afterwards
        first_g = {}
        for oi, (kind, msg) in enumerate(ops):
            if kind == 'G' and msg.sequence_num in put_at:
                first_g.setdefault(msg.sequence_num, oi)
        for i, oi in first_g.items():
            arrived = state.get('started_at', {}).get(oi)
            if fail is None and arrived is not None and arrived - put_at[i] <= ttl_q and state['results'].get(oi) is None \
                    and oi not in state.get('raised', {}):
                # (no earlier operation may have swept it: it was not overdue yet when any of them read the clock)
                fail = ('the response for request %d arrived %d quanta after the request was stored (time-to-live %d) and was not '
                        'matched, under the schedule %s' % (i, arrived - put_at[i], ttl_q,
                                                           ' '.join(e.split('@')[0] + '@' + e.split('@')[1] for e in evs)))
        for i in range(1, k + 1):
            n_to = ev_str.count('E=submit:%d:' % i)
            if shapes[i - 1] == 'seg':
                # a report under a segment's number is the report for its MESSAGE (made with the first segment stored): at
                # most one, whatever was matched
                if n_to > 1 and fail is None:
                    fail = 'the segmented message was reported as timed out %d times under the schedule %s' % (
                        n_to, ' '.join(e.split('@')[0] + '@' + e.split('@')[1] for e in evs))
                continue
            n_m = sum(1 for oi, (kind, msg) in enumerate(ops) if kind == 'G' and msg.sequence_num == i and state['results'].get(oi) is not None)
            if n_to + n_m > 1 and fail is None:
                fail = 'request %d: %d time-out reports and %d matched responses under the schedule %s' % (i, n_to, n_m, ' '.join(e.split('@')[0] + '@' + e.split('@')[1] for e in evs))
        line = 'c.sched ' + ' '.join(evs)
        cases.append(Case(line, real, None, fail, {'op': 'sched', 'ttl': ttl_q, 'lines': [c.line for c in cases[1:]] + [line]}))
        ln, out = sim.op_dump()
        cases.append(Case(ln, out, ('sched', ttl_q // Q, min(k, 3), n_ops, sum(1 for e in evs if e.startswith('R@')) > 1), None,
                          {'op': 'sched', 'ttl': ttl_q, 'lines': [c.line for c in cases[1:]] + [ln]}))
    finally:
        sim.close()
    return cases


def generate(rng, tier):
    thorough = tier == 'thorough'
    for _ in range(600 if thorough else 150):
        yield from sched_history(rng, rng.choice((Q, Q * 5 // 2, 15 * Q)))
    for ttl in (Q, 15 * Q):
        for off in (1, 2, 500):
            yield from nested_history(ttl, off)
        for k in (1, 2, 3, 5):
            for what in ('sweep', 'self', 'other', 'unknown'):
                for which in ((1, 2) if what == 'other' and k > 2 else (1,)):
                    yield from interleaved_history(ttl, k, what, which)
            for which in range(1, k + 1):
                if which <= 3:
                    yield from cancel_history(ttl, k, which)
    for _ in range(1200 if thorough else 300):
        ttl = rng.choice((Q, Q * 5 // 2, 15 * Q))
        n = rng.randrange(1, 13)
        yield from history(rng, ttl, n, rng.random() < 0.4, ())
    # session level: real sessions (silent, late, slow, rejecting SMSC; link resets while a submit_sm is written; suspending
    # hooks; dropped connections) judged by the time-out clauses alone
    from corr import c01s
    yield from c01s.generate(rng, 240 if thorough else 60, which='c14')
    # schedules over a store that holds probes and segments too (a stream of their own, drawn last: the cases above are
    # what they were); first the directed ones: a probe / an open segment swept out in front of a plain request
    import random as _random
    rng2 = _random.Random(rng.random())
    for fixed in (('probe', 'plain'), ('seg', 'plain', 'seg'), ('plain', 'probe', 'plain'), ('seg', 'seg', 'plain')):
        for ttl in (Q, 15 * Q):
            for _ in range(3):
                yield from sched_history(rng2, ttl, fixed=fixed, mixed=True)
    for _ in range(300 if thorough else 80):
        yield from sched_history(rng2, rng2.choice((Q, Q * 5 // 2, 15 * Q)), mixed=True)


def replay(inp):
    if inp.get('op') == 'session':
        from corr import c01s
        return c01s.case_of(dict(inp['sc']), 'c14')
    if inp.get('op') == 'sched':
        return Case('\n'.join(['c.new %d 102400' % inp['ttl']] + inp.get('lines', [])), '', None, None, inp)
    if inp.get('op') == 'cancelled-sweep':
        return cancel_history(inp['ttl'], inp['k'], inp['which'])[-1]
    if inp.get('op') == 'interleaved':
        return interleaved_history(inp['ttl'], inp['k'], inp['what'], inp['which'])[-1]
    if inp.get('op') == 'nested':
        return nested_history(inp['ttl'], inp['offset'])[-1]
    # a recorded history is replayed on the model only (the real run needs the generator's seed)
    return Case('\n'.join(['c.new 15360 102400'] + inp.get('lines', [])), '', None, None, inp)


def classify(case):
    return None
