"""C17 — SMPP time format: correspondence and property predicate."""
import calendar
from datetime import datetime, timedelta, timezone, tzinfo
from vlib import Case, nats, exc_name


class RuleZone(tzinfo):
    """a rule-based zone: ONE tzinfo object whose utcoffset depends on the date (winter / summer offset in
    seconds, summer = April..September), as zoneinfo / dateutil zones do"""
    def __init__(self, winter, summer):
        self.winter, self.summer = winter, summer

    def utcoffset(self, dt):
        return timedelta(seconds=self.summer if dt is not None and 4 <= dt.month <= 9 else self.winter)

    def dst(self, dt):
        return timedelta(0)

    def tzname(self, dt):
        return 'rule%+d%+d' % (self.winter, self.summer)


_ZONES = {}


def zone(winter, summer):
    """the same object for the same rule, all through the run (what an application holding a zone does)"""
    return _ZONES.setdefault((winter, summer), RuleZone(winter, summer))

ID = 'C17'
TARGETS = ['SmppVerif.Props.C17']
THOROUGH_ROUNDS = 5
RULE = ('absolute: every quarter-hour offset -48..+48 and naive x {first/last day of every month, leap days, years '
        '2000/2069/2070/2099} x tenths 0..9, plus offsets outside the property domain (any minute, up to +-23:59) and '
        'random instants, and datetimes of both seasons through ONE rule-based tzinfo object per zone (offset depends on the date); relative: every whole day 0..441 x boundary seconds, random durations, negative and '
        'over-long durations; decode direction: every encoded string plus malformed ASCII strings (short, signs, '
        'underscores, blanks, out-of-range fields). distinct-nontrivial = distinct (operation, kind, offset class / '
        'year bucket / field-out-of-range class, outcome class)')
TRUSTED = ['Lean 4.33.0 kernel', 'axioms: propext, Quot.sound',
           'Spec/TimeFormat.lean: hand transcription of SMPP 3.4 section 7.1.1',
           'CPython datetime/timedelta/strftime/int() (modelled, swept, not verified)',
           'tools/corr/c17.py + Driver.lean line protocol']
ASSUMPTIONS = ['a tzinfo is reduced to its utcoffset (at the datetime converted) in whole seconds',
               'strftime(%y%m%d%H%M%S) is modelled as two-digit fields',
               'int() is modelled on ASCII input only (digits, sign, underscores, white space)',
               'a naive datetime denotes the same fields at UTC (it is written with offset 00+)']
EXHAUSTIVE = {'quick': False, 'thorough': False}


def fns():
    from aiosmpplib.protocol import SubmitSm
    return SubmitSm.datetime_to_smpp_time, SubmitSm.smpp_time_to_datetime


def show_obj(r):
    if r is None:
        return 'ok none'
    if isinstance(r, datetime):
        if r.tzinfo is None:
            off = '-'
        else:
            o = getattr(r.tzinfo, 'offset', None)
            if o is None:
                o = r.utcoffset()
            off = str(o.days * 86400 + o.seconds)
        return 'ok abs %d %d %d %d %d %d %d %s' % (r.year, r.month, r.day, r.hour, r.minute, r.second,
                                                   r.microsecond, off)
    return 'ok rel %d %d %d' % (r.days, r.seconds, r.microseconds)


def spec_render_abs(d, off):
    q, sign = abs(off) // 900, ('-' if off < 0 else '+')
    return '%02d%02d%02d%02d%02d%02d%d%02d%s' % (d.year % 100, d.month, d.day, d.hour, d.minute, d.second,
                                                  d.microsecond // 100000, q, sign)


def to_case(obj, off=None, rule=None, prior=None):
    """obj: None | naive datetime (+ off seconds or None, or a rule-based zone (winter, summer)) | timedelta;
    prior: datetimes converted through the same zone object before (replay of a zone case)"""
    f, g = fns()
    fail = None
    if rule is not None:
        z = zone(*rule)
        off = int(z.utcoffset(obj).total_seconds())
        for pf in (prior or []):
            try:
                f(datetime(*pf).replace(tzinfo=z))
            except Exception:      # noqa
                pass
    if obj is None:
        line = 'time.to none'
        arg = None
        inp = {'op': 'to', 'kind': 'none'}
        sig = ('to', 'none')
    elif isinstance(obj, datetime):
        arg = obj if off is None else obj.replace(tzinfo=zone(*rule) if rule is not None
                                                  else timezone(timedelta(seconds=off)))
        line = 'time.to abs %d %d %d %d %d %d %d %s' % (obj.year, obj.month, obj.day, obj.hour, obj.minute,
                                                        obj.second, obj.microsecond, '-' if off is None else off)
        inp = {'op': 'to', 'kind': 'abs', 'fields': [obj.year, obj.month, obj.day, obj.hour, obj.minute,
                                                     obj.second, obj.microsecond], 'off': off}
        if rule is not None:
            inp['rule'] = list(rule)
            inp['prior'] = list(prior or [])
        in_dom = 2000 <= obj.year <= 2099 and (off is None or (off % 900 == 0 and abs(off) <= 43200))
        sig = ('to', 'abs', 'naive' if off is None else ('q' if off % 900 == 0 else 'odd', off < 0, abs(off) > 43200),
               obj.year // 35, in_dom, rule is not None)
    else:
        arg = obj
        line = 'time.to rel %d %d %d' % (obj.days, obj.seconds, obj.microseconds)
        inp = {'op': 'to', 'kind': 'rel', 'fields': [obj.days, obj.seconds, obj.microseconds]}
        in_dom = timedelta(0) <= obj <= timedelta(weeks=63)
        sig = ('to', 'rel', obj.days // 100, obj.days < 0, in_dom)
    try:
        s = f(arg)
        out = 'ok ' + nats(s)
    except Exception as e:      # noqa
        s = None
        out = 'exc ' + exc_name(e)
    # property predicate
    if isinstance(obj, datetime) and in_dom:
        o = 0 if off is None else off
        if s != spec_render_abs(obj, o):
            fail = 'absolute time is not YYMMDDhhmmsstnnp of the value: %r' % s
        else:
            try:
                r = g(s)
                want = obj.replace(microsecond=obj.microsecond // 100000 * 100000,
                                   tzinfo=timezone(timedelta(seconds=o)))
                if not isinstance(r, datetime) or r.tzinfo is None or r != want \
                        or r.utcoffset() != timedelta(seconds=o) \
                        or r.replace(tzinfo=None) != want.replace(tzinfo=None):
                    fail = 'instant changed by the round trip: %r' % (r,)
            except Exception as e:      # noqa
                fail = 'decoding the encoded time raised %r' % e
    elif isinstance(obj, timedelta):
        if obj > timedelta(weeks=63):
            if out != 'exc ValueError':
                fail = 'duration beyond 63 weeks not rejected with ValueError'
        elif in_dom:
            if s is None or len(s) != 16 or not s.endswith('000R') or not s[:12].isdigit():
                fail = 'relative time is not YYMMDDhhmmss000R: %r' % s
            else:
                try:
                    r = g(s)
                    if r != timedelta(days=obj.days, seconds=obj.seconds):
                        fail = 'duration changed by the round trip: %r' % (r,)
                except Exception as e:      # noqa
                    fail = 'decoding the encoded duration raised %r' % e
    sig = sig + (out[:3] if out.startswith('ok') else out,)
    return Case(line, out, sig, fail, inp), s


def from_case(s):
    f, g = fns()
    try:
        r = g(s)
        out = show_obj(r)
    except Exception as e:      # noqa
        out = 'exc ' + exc_name(e)
    kind = 'empty' if not s else ('R' if s.endswith('R') else 'A')
    sig = ('from', kind, min(len(s), 17), s[:12].isdigit(), out.split(' ')[1] if out.startswith('ok') else out)
    return Case('time.from ' + nats(s), out, sig, None, {'op': 'from', 'text': s})


def generate(rng, tier):
    thorough = tier == 'thorough'
    strings = set()

    def emit(obj, off=None):
        c, s = to_case(obj, off)
        if s:
            strings.add(s)
        return c
    yield emit(None)
    years = (2000, 2024, 2069, 2070, 2099)
    days = []
    for y in years:
        for m in range(1, 13):
            last = calendar.monthrange(y, m)[1]
            days.append((y, m, 1))
            days.append((y, m, last))
    times = ((0, 0, 0), (23, 59, 59), (12, 30, 15))
    offs = [None] + [q * 900 for q in range(-48, 49)]
    for (y, m, d) in days:
        for off in (offs if thorough else offs[::7] + [None, -43200, 43200, 900, -900]):
            for tenth in ((0, 3, 9) if not thorough else range(10)):
                h, mi, s = times[(d + tenth) % 3]
                yield emit(datetime(y, m, d, h, mi, s, tenth * 100000 + (tenth * 7919) % 100000), off)
    # every quarter-hour offset at one instant
    for off in offs:
        for tenth in range(10):
            yield emit(datetime(2031, 7, 9, 8, 7, 6, tenth * 100000 + 54321), off)
    # offsets outside the property domain (model correspondence only)
    for off in (60, -60, 3599, 21180, -21180, 43260, -43260, 50400, -50400, 86340, -86340, 1, -1, 899, 901):
        yield emit(datetime(2025, 3, 4, 5, 6, 7, 890000), off)
    for y in (1, 99, 1900, 1969, 1999, 2100, 2101, 9999):
        yield emit(datetime(y, 6, 15, 1, 2, 3, 400000), rng.choice(offs))
    # rule-based zones: one tzinfo object per zone, its offset depends on the date; dates of both seasons in turn
    seen = {}
    rules = [(3600, 7200), (-12600, -9000), (20700, 24300), (0, 3600), (-18000, -14400), (34200, 37800)]
    for k in range(120 if thorough else 36):
        rule = rules[k % len(rules)]
        y = rng.randrange(2000, 2100)
        m = (1, 7, 12, 4, 9, 10, 3, 6)[(k // len(rules)) % 8]
        d = datetime(y, m, rng.randrange(1, 29), rng.randrange(24), rng.randrange(60), rng.randrange(60),
                     rng.randrange(10) * 100000)
        prior = seen.setdefault(rule, [])
        c, s = to_case(d, rule=rule, prior=None)
        c.inp['prior'] = list(prior)
        prior.append([d.year, d.month, d.day, d.hour, d.minute, d.second, d.microsecond])
        if s:
            strings.add(s)
        yield c
    for _ in range(6000 if thorough else 1500):
        y = rng.randrange(2000, 2100)
        m = rng.randrange(1, 13)
        d = rng.randrange(1, calendar.monthrange(y, m)[1] + 1)
        yield emit(datetime(y, m, d, rng.randrange(24), rng.randrange(60), rng.randrange(60),
                            rng.randrange(1000000)), rng.choice(offs + [rng.randrange(-86399, 86400)]))
    # the times as they reach the wire: a message with relative times that the Sender segments while its sending hook takes
    # 1.2 s per PDU (as a throttled sender waits between segments) - every segment carries the message's times
    from corr import c08
    for udh in (False, True):
        yield c08.session_segments_case(rng, (udh, True, 'none', None, 'slow'))
    # relative
    for dd in range(0, 443):
        for sec in ((0, 86399) if not thorough else (0, 1, 59, 60, 3599, 3600, 86399)):
            yield emit(timedelta(days=dd, seconds=sec, microseconds=(dd * 37) % 1000000 if sec else 0))
    yield emit(timedelta(weeks=63))
    yield emit(timedelta(weeks=63, microseconds=1))
    yield emit(timedelta(weeks=63, seconds=1))
    for td in (timedelta(days=-1), timedelta(seconds=-1), timedelta(days=-400, seconds=5), timedelta(days=-365),
               timedelta(days=442), timedelta(days=5000), timedelta(days=999999999)):
        yield emit(td)
    for _ in range(4000 if thorough else 800):
        yield emit(timedelta(days=rng.randrange(0, 441), seconds=rng.randrange(86400),
                             microseconds=rng.randrange(1000000)))
    # decode direction: everything we produced, plus malformed strings
    for s in sorted(strings):
        yield from_case(s)
    yield from_case('')
    base = '250304050607812+'
    rel = '010203040506000R'
    for b in (base, rel):
        for n in range(0, 17):
            yield from_case(b[:n])
        for i in range(16):
            for ch in ('-', '+', '_', ' ', '9', 'x', 'R', '0', '\t', '\x1c'):
                yield from_case(b[:i] + ch + b[i + 1:])
        yield from_case(b + '0')
        yield from_case(b + 'R')
    for s in ('000000000000000+', '001301000000000+', '000230000000000+', '240229000000000+', '230229000000000+',
              '000101240000000+', '000101006000000+', '000101000060000+', '99123123595994 8-', '9912312359599 48-',
              '99123123595994_8-', '990101000000096+', '990101000000099-', '991231235959900', '0001010000000-1+',
              '-10101000000000+', '+50101000000000+', '000101000000000 ', '00010100000000048', '1_0101000000000+',
              '000000000000000R', '999999999999000R', '-1-1-1-1-1-1000R', '99 9 9 9 9 9000R', 'R', '0R'):
        yield from_case(s)
    alphabet = '0123456789+-_ R'
    for _ in range(6000 if thorough else 1500):
        n = rng.choice((16, 16, 16, 15, 17, rng.randrange(0, 20)))
        s = ''.join(rng.choice(alphabet if rng.random() < 0.3 else '0123456789') for _ in range(n))
        if rng.random() < 0.5 and n >= 16:
            s = s[:15] + rng.choice('+-R')
        yield from_case(s)


def replay(inp):
    if inp['op'] == 'session-seg':
        return Case('# ' + str(inp)[:200], '', None, None, inp)
    if inp['op'] == 'from':
        return from_case(inp['text'])
    if inp['kind'] == 'none':
        return to_case(None)[0]
    if inp['kind'] == 'abs':
        f = inp['fields']
        if inp.get('rule') is not None:
            _ZONES.pop(tuple(inp['rule']), None)
            return to_case(datetime(*f), rule=tuple(inp['rule']), prior=inp.get('prior'))[0]
        return to_case(datetime(*f), inp['off'])[0]
    d, s, us = inp['fields']
    return to_case(timedelta(days=d, seconds=s, microseconds=us))[0]


def classify(case):
    return None
