"""C19 — persistence: (1) the real PersistingDict against the Lean dictionary/file-system model
(operations, what is written when), (2) restart equivalence of a real SimpleCorrelator with a
directory on generated histories, (3) crash injection into the real `_save` at every system call
and at partial writes."""
import json
import os
import shutil
import tempfile
from vlib import Case
from corr.corrlib import CorrSim, Q

ID = 'C19'
TARGETS = ['SmppVerif.Props.C19']
THOROUGH_ROUNDS = 4
RULE = ('(1) random operation strings (assign, delete, pop, change in place) on a real PersistingDict with its open/os.replace '
        'traced, compared with the model: which operations write, memory, what a reload sees; (2) histories of put / response / '
        'put_delivery / receipt / segmented deliver_sm / sweeps on a real SimpleCorrelator with a directory (plain and segmented '
        'submits, accepted and rejected, receipts with and without error): after EVERY operation a new correlator loaded from the '
        'directory must dump identically to the live one, and a run restarted at a random point must produce the same outputs as '
        'the run that never restarted (log_id / extra_data of every receipt included); (3) for operations of such histories, a '
        'crash injected at every traced system call of every _save (before open, after truncation, after k bytes for several k, '
        'before and after the rename): every store file must hold exactly its content before or after the interrupted write and '
        'a new correlator must load it. distinct-nontrivial = distinct (part, operation mix, segmented?, restart position class, '
        'crash point kind, store)')
TRUSTED = ['Lean 4.33.0 kernel', 'axioms: propext, Quot.sound, Classical.choice',
           'the file-system abstraction: os.replace is atomic, a crash loses at most a suffix of the bytes written to the open file '
           '(no fsync ordering / power-loss model), open(w) creates or truncates',
           'tools/corr/c19.py (tracing open/os.replace through module globals of aiosmpplib.correlator; crash = BaseException raised '
           'inside the traced call, instance abandoned)', 'C12 for the JSON round trip of the stored messages']
ASSUMPTIONS = ['process crash, not power loss: data handed to the OS before the rename is what the rename publishes',
               'restart histories: time.monotonic keeps running across the restart (same boot); reboot cases: it starts over, below the stamps in the files',
               'one process per directory']
EXHAUSTIVE = {'quick': False, 'thorough': False}


class CrashNow(BaseException):
    pass


class Tracer:
    """replaces `open` and `os` in aiosmpplib.correlator; records the calls of _save and can crash at a chosen point"""

    def __init__(self, cm):
        self.cm = cm
        self.calls = []          # ('open', path) ('write', path, nbytes) ('replace', src, dst)
        self.crash_at = None     # (call index, partial byte count or None)
        self.n = 0
        self._saved = (cm.__dict__.get('open'), cm.os)
        tr = self

        class OsProxy:
            path = os.path

            @staticmethod
            def replace(src, dst):
                tr._point(('replace', src, dst))
                os.replace(src, dst)
                tr._after()

            # whatever else a _save may do to the directory is a step of its own, and a point where the process can die
            @staticmethod
            def rename(src, dst):
                tr._point(('rename', src, dst))
                os.rename(src, dst)
                tr._after()

            @staticmethod
            def remove(path_):
                tr._point(('remove', path_))
                os.remove(path_)
                tr._after()

            @staticmethod
            def unlink(path_):
                tr._point(('unlink', path_))
                os.unlink(path_)
                tr._after()

        for _name in dir(os):
            if not _name.startswith('__') and not hasattr(OsProxy, _name):
                setattr(OsProxy, _name, getattr(os, _name))     # everything else: the real thing, untraced

        class TracedFile:
            """a text file opened for writing, with the buffering of the real one: data reaches the file when the buffer
            (8 KiB) overflows and when the file is closed; a crash loses what is still buffered"""
            BUF = 8192

            def __init__(self, path):
                self.path = path
                self.fd = os.open(path, os.O_WRONLY | os.O_CREAT | os.O_TRUNC, 0o644)
                self.buf = b''
                self.open = True

            def _flush(self, upto=None):
                data, self.buf = (self.buf, b'') if upto is None else (self.buf[:upto], self.buf[upto:])
                if not data:
                    return
                k = tr._point(('write', self.path, len(data)))
                if k is not None:
                    os.write(self.fd, data[:k])
                    os.close(self.fd)
                    self.open = False
                    raise CrashNow()
                os.write(self.fd, data)
                tr._after()

            def write(self, text):
                self.buf += text.encode('utf-8')
                while len(self.buf) > self.BUF:
                    self._flush(self.BUF)
                return len(text)

            def __enter__(self):
                return self

            def __exit__(self, et, ev, tb):
                if et is not None and issubclass(et, CrashNow):
                    # the process is gone: nothing buffered is written
                    if self.open:
                        os.close(self.fd)
                        self.open = False
                    return False
                self._flush()
                if self.open:
                    os.close(self.fd)
                    self.open = False
                return False

        def traced_open(path, mode='r', *a, **kw):
            if 'w' in mode:
                tr._point(('open', path))
                f = TracedFile(path)
                tr._after()
                return f
            return open(path, mode, *a, **kw)
        cm.open = traced_open
        cm.os = OsProxy

    def _point(self, call):
        """called before the effect of a system call; returns a byte count for a partial write"""
        i = self.n
        self.calls.append(call)
        if self.crash_at is not None and self.crash_at[0] == i:
            if self.crash_at[1] == 'before':
                raise CrashNow()
            if call[0] == 'write' and isinstance(self.crash_at[1], int):
                return self.crash_at[1]
        return None

    def _after(self):
        i = self.n
        self.n += 1
        if self.crash_at is not None and self.crash_at[0] == i and self.crash_at[1] == 'after':
            raise CrashNow()

    def reset(self):
        self.calls = []
        self.n = 0
        self.crash_at = None

    def close(self):
        if self._saved[0] is None:
            self.cm.__dict__.pop('open', None)
        else:
            self.cm.open = self._saved[0]
        self.cm.os = self._saved[1]


# ---- part 1: PersistingDict vs model -------------------------------------------------------------

def pd_case(rng, n_ops):
    import aiosmpplib.correlator as cm
    d = tempfile.mkdtemp(prefix='c19-')
    tr = Tracer(cm)
    try:
        use_file = rng.random() < 0.9
        pd = cm.PersistingDict(d if use_file else '', 'f.json')
        ops, tags = [], []
        last_mut = None
        for _ in range(n_ops):
            k = str(rng.randrange(4))
            r = rng.randrange(10)
            tr.reset()
            try:
                if r < 4:
                    v = rng.randrange(100)
                    ops.append('s:%s:%d' % (ord(k), v))
                    pd[k] = [v]
                elif r < 6:
                    ops.append('d:%s' % ord(k))
                    del pd[k]
                elif r < 8:
                    ops.append('p:%s' % ord(k))
                    pd.pop(k, None)
                elif r == 8 and last_mut is not None and last_mut[0] in pd:
                    # the idiom of the correlator: assign the changed entry back
                    k = last_mut[0]
                    ops.append('s:%s:%d' % (ord(k), pd[k][0]))
                    pd[k] = pd[k]
                else:
                    v = rng.randrange(100)
                    ops.append('m:%s:%d' % (ord(k), v))
                    if k in pd:
                        pd[k][0] = v        # a change made in place to a stored value
                        last_mut = (k, v)
                kinds = [c[0] for c in tr.calls]
                if not kinds:
                    tags.append('-')
                elif len(kinds) >= 3 and kinds[0] == 'open' and kinds[-1] == 'replace' and set(kinds[1:-1]) == {'write'} \
                        and tr.calls[0][1] == tr.calls[-1][1] and tr.calls[-1][2] == os.path.join(d, 'f.json') \
                        and tr.calls[0][1] != tr.calls[-1][2]:
                    tags.append('S')
                else:
                    tags.append('?' + '+'.join(kinds))
            except KeyError:
                tags.append('K')
        mem = ';'.join('%d=%d' % (ord(k), v[0]) for k, v in pd._data.items()) or '-'
        path = os.path.join(d, 'f.json')
        if os.path.exists(path):
            re = cm.PersistingDict(d, 'f.json')
            disk = ';'.join('%d=%d' % (ord(k), v[0]) for k, v in re._data.items()) or '-'
        else:
            disk = 'absent'
        tmp = 'yes' if os.path.exists(path + '.tmp') else 'no'
        line = 'pd.run %s %s' % (','.join(str(ord(c)) for c in 'f.json') if use_file else '-', ' '.join(ops))
        out = 'ok %s | mem=%s | disk=%s | tmp=%s' % (' '.join(tags), mem, disk, tmp)
        has_mut = any(o.startswith('m:') for o in ops)
        fail = None
        if use_file and not has_mut and disk != mem and not (disk == 'absent' and mem == '-'):
            fail = 'after assignments/deletions/pops only, a reload sees %s but the dictionary holds %s' % (disk, mem)
        sig = ('pd', use_file, tuple(sorted(set(t[0] for t in tags))), has_mut, disk == mem)
        return Case(line, out, sig, fail, {'op': 'pd', 'line': line})
    finally:
        tr.close()
        shutil.rmtree(d, ignore_errors=True)


# ---- part 2 / 3: correlator histories ---------------------------------------------------------------

def gen_history(rng):
    """abstract operations; message ids are assigned by the generator"""
    ops = []
    now = 0
    seq = 0
    msgs = []
    for mi in range(rng.randrange(1, 4)):
        nseg = rng.choice((1, 1, 2, 3))
        ref = 10 + mi
        segs = []
        for si in range(nseg):
            seq += 1
            segs.append(seq)
            now += rng.randrange(1, 50)
            ops.append(('put', now, seq, mi + 1, (ref, si + 1, nseg) if nseg > 1 else None))
        msgs.append((mi, segs))
    later = []
    for mi, segs in msgs:
        for s in segs:
            status = rng.choice((0, 0, 0, 0x58, 8, 'nack', 'nack'))
            mid = 'm%ds%d' % (mi, s)
            later.append(('resp', s, status, mid))
            if status == 0 and rng.random() < 0.8:
                later.append(('rcpt', mid, rng.choice((None, None, 0, 17))))
    # responses come in order per message, receipts any time after their response
    rng.shuffle(later)
    done = set()
    pending = list(later)
    guard = 0
    while pending and guard < 1000:
        guard += 1
        op = pending.pop(0)
        if op[0] == 'rcpt' and ('resp', op[1]) not in done:
            pending.append(op)
            continue
        now += rng.randrange(1, 200)
        if op[0] == 'resp':
            done.add(('resp', op[3]))
            ops.append(('resp', now, op[1], op[2], op[3]))
        else:
            ops.append(('rcpt', now, op[1], op[2]))
        if rng.random() < 0.15:
            seq += 1
            now += rng.randrange(1, 3000)
            ops.append(('probe', now, 100 + seq))
        if rng.random() < 0.1:
            r = 40 + rng.randrange(3)
            ops.append(('dseg', now, r, rng.randrange(1, 4), 3, 'p%d' % rng.randrange(9)))
    if rng.random() < 0.5:
        now += rng.choice((14 * Q, 16 * Q, 40 * Q))
        ops.append(('probe', now, 999))
    return ops


def apply(sim, op):
    """an operation that raises is an observation ('exc:<class>'), judged by the caller"""
    try:
        return _apply(sim, op)
    except Exception as e:      # noqa
        return 'exc:%s(%s)' % (type(e).__name__, str(e)[:80])


def _apply(sim, op):
    k = op[0]
    if k == 'put':
        _, now, seq, log, sar = op
        # every third message carries a text as careless clients hand it over: a lone surrogate, Latin-1 and astral characters
        text = 'x' if seq % 3 else 'cut\ud83d caf\xe9 \U0001F600'
        return sim.op_put(now, sim.submit(seq, log=log, extra=log + 50, sar=sar, text=text))[1]
    if k == 'resp':
        _, now, seq, status, mid = op
        if status == 'nack':
            return sim.op_hresp(now, sim.resp('nack', seq, 3))[1]
        return sim.op_hresp(now, sim.resp('submitresp', seq, status, mid if status == 0 else ''))[1]
    if k == 'rcpt':
        _, now, mid, err = op
        return sim.op_hdel(now, sim.deliver(7, 'receipt', receipt=(mid, err)))[1]
    if k == 'probe':
        _, now, seq = op
        return sim.op_put(now, sim.request('enq', seq))[1]
    if k == 'dseg':
        _, now, ref, i, n, text = op
        return sim.op_hdel(now, sim.deliver(8, text, sar=(ref, i, n)))[1]
    raise ValueError(k)


def restart_case(rng, fixed=None):
    import aiosmpplib.correlator as cm
    if fixed:
        hist, r = [tuple(tuple(x) if isinstance(x, list) else x for x in o) for o in fixed[0]], fixed[1]
    else:
        hist = gen_history(rng)
        r = rng.randrange(len(hist) + 1)
    d1, d2 = tempfile.mkdtemp(prefix='c19a-'), tempfile.mkdtemp(prefix='c19b-')
    fail = None
    try:
        a = CorrSim(directory=d1)
        b = CorrSim(directory=d2)
        b.clock = a.clock
        cm.time = a.clock
        try:
            for i, op in enumerate(hist):
                if i == r:
                    b.reload()
                oa, ob = apply(a, op), apply(b, op)
                if fail is None and (oa.startswith('exc:') or ob.startswith('exc:')):
                    fail = 'operation %d %r on a persisting correlator raised: %s' % (i, op, oa if oa.startswith('exc:') else ob)
                if oa != ob and fail is None:
                    fail = 'operation %d %r: without restart %s, restarted before operation %d: %s' % (i, op, oa, r, ob)
                # a new instance on the directory must hold what the live one holds
                live = a.op_dump()[1]
                probe = CorrSim(directory=d1)
                try:
                    try:
                        fresh = probe.op_dump()[1]
                    except Exception as e:      # noqa
                        fresh = 'unusable (%r)' % (e,)
                finally:
                    probe.close()
                    cm.time = a.clock
                if fresh != live and fail is None:
                    fail = 'after operation %d %r a new correlator on the directory holds %s, the live one %s' % (i, op, fresh, live)
            fa, fb = a.op_dump()[1], b.op_dump()[1]
            if fa != fb and fail is None:
                fail = 'final state differs after a restart before operation %d' % r
        finally:
            b.close()
            a.close()
    finally:
        shutil.rmtree(d1, ignore_errors=True)
        shutil.rmtree(d2, ignore_errors=True)
    seg = any(o[0] == 'put' and o[4] for o in hist)
    sig = ('restart', seg, 'start' if r == 0 else 'end' if r == len(hist) else 'mid', tuple(sorted({o[0] for o in hist})),
           any(o[0] == 'resp' and o[3] for o in hist), any(o[0] == 'rcpt' and o[3] for o in hist))
    line = '# restart-history %s @%d' % (json.dumps(hist), r)
    return Case(line, line, sig, fail, {'op': 'restart', 'hist': hist, 'at': r})


def reboot_case(rng, fixed=None):
    """a restart across a reboot: time.monotonic() of the new process starts over, far below the stamps in the files
    (uptime before the reboot longer than the time-to-live).  The correlations recorded before must still be found, with
    the original log_id and extra_data, by a new correlator on the directory - also after it has run its sweeps."""
    if fixed:
        n, uptime, after, order = fixed
    else:
        n = rng.randrange(1, 5)
        uptime = rng.choice((200, 5000, 10 ** 6)) * Q
        after = rng.choice((0, 1, 7, 90)) * Q
        order = list(range(n))
        rng.shuffle(order)
    d1 = tempfile.mkdtemp(prefix='c19r-')
    fail = None
    try:
        a = CorrSim(directory=d1)           # ttl: 15 s for responses, 100 s for receipts
        try:
            t = uptime
            for i in range(n):
                t += Q
                a.op_put(t, a.submit(i + 1, 30 + i, 1030 + i))
                t += Q
                a.op_hresp(t, a.resp('submitresp', i + 1, 0, 'rb%d' % i))
        finally:
            a.close()
        b = CorrSim(directory=d1)           # the new process after the reboot: its clock starts over
        try:
            t = after
            t += Q
            b.op_put(t, b.submit(900, 99, 1099))            # any correlator operation runs the sweeps
            for k, i in enumerate(order):
                t += Q
                res = b.op_hdel(t, b.deliver(9200 + k, 'x', receipt=('rb%d' % i, 0)))[2]
                have = (getattr(res, 'log_id', None), getattr(res, 'extra_data', None))
                if fail is None and have != ('L%d' % (30 + i), 'L%d' % (1030 + i)):
                    fail = ('correlation for id rb%d recorded at monotonic time %d s is not found after a reboot (clock at %d s): '
                            'receipt handed over with log_id %r / extra_data %r' % (i, uptime // Q, t // Q, have[0], have[1]))
        finally:
            b.close()
    finally:
        shutil.rmtree(d1, ignore_errors=True)
    line = '# reboot n=%d uptime=%d after=%d' % (n, uptime // Q, after // Q)
    return Case(line, line, ('reboot', n, uptime // Q, after // Q), fail,
                {'op': 'reboot', 'n': n, 'uptime': uptime, 'after': after, 'order': order})


def schedule_case():
    """a stored submit_sm with an absolute schedule_delivery_time / validity_period that lies in the past by the time of the
    restart (the normal case: receipts for scheduled messages come after the scheduled time).  Real time passes here
    (about 1.3 s): the stores must load whatever the wall clock says."""
    import time as _time
    from datetime import datetime, timedelta, timezone
    d1 = tempfile.mkdtemp(prefix='c19s-')
    fail = None
    try:
        a = CorrSim(directory=d1)
        try:
            soon = datetime.now(timezone.utc) + timedelta(seconds=1.1)
            m1 = a.submit(1, 41, 1041)
            m1.schedule_delivery_time = soon
            m2 = a.submit(2, 42, 1042)
            m2.validity_period = soon
            m3 = a.submit(3, 43, 1043)
            t = 1000
            for i, m in enumerate((m1, m2, m3)):
                t += Q
                a.op_put(t, m)
                t += Q
                a.op_hresp(t, a.resp('submitresp', i + 1, 0, 'sc%d' % i))
        finally:
            a.close()
        _time.sleep(1.3)
        b = CorrSim(directory=d1)
        try:
            b.clock.q = t
            for i in (2, 0, 1):
                t += Q
                res = b.op_hdel(t, b.deliver(9300 + i, 'x', receipt=('sc%d' % i, 0)))[2]
                have = (getattr(res, 'log_id', None), getattr(res, 'extra_data', None))
                if fail is None and have != ('L%d' % (41 + i), 'L%d' % (1041 + i)):
                    fail = ('correlation for id sc%d is not found after a restart that falls after the scheduled / validity time of '
                            'a stored message: receipt handed over with log_id %r / extra_data %r' % (i, have[0], have[1]))
        finally:
            b.close()
    except Exception as e:      # noqa
        fail = 'storing / reloading messages with absolute times raised %r' % (e,)
    finally:
        shutil.rmtree(d1, ignore_errors=True)
    line = '# restart-after-scheduled-time'
    return Case(line, line, ('scheduled',), fail, {'op': 'scheduled'})


def hook_crash_case(rng):
    """the process dies while the application's send_error hook is suspended (a sweep is reporting an expired request):
    what other tasks recorded or consumed meanwhile - a new SMSC id, a receipt that used up an old one - is in the files
    already, since every assignment saves at once; the store files are read as they are at that moment"""
    from aiosmpplib.protocol import SmppMessage
    d1 = tempfile.mkdtemp(prefix='c19h-')
    fail = None
    seen = {}
    try:
        a = CorrSim(directory=d1)
        try:
            a.op_put(100, a.submit(1, 51, 1051))                       # never answered: expires
            a.op_put(101, a.submit(2, 52, 1052))
            a.op_hresp(102, a.resp('submitresp', 2, 0, 'old'))         # recorded long before
            t = 100 + 16 * Q
            a.op_put(100 + 14 * Q, a.submit(3, 53, 1053))              # fresh when the sweep runs

            async def meanwhile(_reported):
                # ... the Receiver handles the response to 3 and a receipt for 'old' while the hook is suspended
                r = a.resp('submitresp', 3, 0, 'new')
                pdu_ = r.pdu()
                await a.esme._handle_response(pdu_, SmppMessage.parse_header(pdu_[:16]))
                d = a.deliver(77, 'x', receipt=('old', 0))
                pdu_ = d.pdu()
                await a.esme._handle_request(pdu_, SmppMessage.parse_header(pdu_[:16]))
                # the crash: this is what a new process would find
                try:
                    with open(os.path.join(d1, 'c_delivery_store.json'), encoding='utf-8') as f:
                        seen['ids'] = sorted(json.load(f).keys())
                except Exception as e:      # noqa
                    seen['ids'] = 'unreadable: %r' % (e,)
            a.nested_op = meanwhile
            a.op_put(t, a.request('enq', 5000))
        finally:
            a.close()
        if seen.get('ids') != ['new']:
            fail = ('while the send_error hook was suspended another task recorded the id "new" and a receipt consumed the id "old": '
                    'the delivery store file then holds %s, expected ["new"]' % (seen.get('ids', 'nothing: the hook was never entered'),))
    except Exception as e:      # noqa
        fail = 'the scenario raised %r' % (e,)
    finally:
        shutil.rmtree(d1, ignore_errors=True)
    line = '# crash-while-hook-suspended'
    return Case(line, line, ('hook-crash',), fail, {'op': 'hook-crash'})


def file_states(d):
    out = {}
    for f in sorted(os.listdir(d)):
        if f.endswith('.json'):
            with open(os.path.join(d, f), 'rb') as fh:
                out[f] = fh.read()
    return out


STORES = {'c_store.json': '_store', 'c_segment_store.json': '_segment_store',
          'c_segment_status_store.json': '_segment_status_store', 'c_delivery_store.json': '_delivery_store',
          'c_delivery_segment_store.json': '_delivery_segment_store'}


def crash_cases(rng, max_points, fixed=None):
    import aiosmpplib.correlator as cm
    if fixed:
        hist = [tuple(tuple(x) if isinstance(x, list) else x for x in o) for o in fixed[0]]
        i = fixed[1]
    else:
        hist = gen_history(rng)
        i = rng.randrange(len(hist))
    base = tempfile.mkdtemp(prefix='c19c-')
    cases = []
    tr = None
    try:
        sim = CorrSim(directory=base)
        try:
            for op in hist[:i]:
                apply(sim, op)
        finally:
            sim.close()
        before = file_states(base)
        # reference run of operation i with tracing: its system calls and what each rename publishes
        ref = tempfile.mkdtemp(prefix='c19r-')
        shutil.rmtree(ref)
        shutil.copytree(base, ref)
        tr = Tracer(cm)
        published = []       # (call index of the rename, file name, content)
        orig_after = tr._after

        def snap_after():
            call = tr.calls[tr.n]
            if call[0] == 'replace':
                with open(call[2], 'rb') as fh:
                    published.append((tr.n, os.path.basename(call[2]), fh.read()))
            orig_after()
        sim = CorrSim(directory=ref)
        try:
            tr.reset()
            tr._after = snap_after
            apply(sim, hist[i])
            calls = list(tr.calls)
        finally:
            tr._after = orig_after
            sim.close()
        shutil.rmtree(ref, ignore_errors=True)
        points = []
        for ci, c in enumerate(calls):
            points.append((ci, 'before'))
            if c[0] == 'write':
                n = c[2]
                for k in sorted({0, 1, n // 2, max(n - 1, 0)}):
                    points.append((ci, k))
            points.append((ci, 'after'))
        if fixed:
            points = [pt for pt in points if pt[0] == fixed[2] and pt[1] == fixed[3]] or points
        else:
            rng.shuffle(points)
        for ci, how in points[:max_points]:
            work = tempfile.mkdtemp(prefix='c19w-')
            shutil.rmtree(work)
            shutil.copytree(base, work)
            sim = CorrSim(directory=work)
            tr.reset()
            tr.crash_at = (ci, how)
            crashed = False
            try:
                try:
                    apply(sim, hist[i])
                except CrashNow:
                    crashed = True
            finally:
                tr.crash_at = None
                sim.close()
            call = calls[ci]
            # the write that was interrupted: the first rename at or after the crashed call
            nxt = [p for p in published if p[0] >= ci]
            target = nxt[0][1] if nxt else None
            got = file_states(work)
            fail = None
            if not crashed:
                fail = 'the traced call %d was not reached again: the operation is not deterministic' % ci
            for f in sorted(set(got) | set(before) | {p[1] for p in published}):
                earlier = [p[2] for p in published if p[1] == f and p[0] < ci]
                prev = earlier[-1] if earlier else before.get(f)
                allowed = [prev]
                if f == target:
                    allowed.append(nxt[0][2])
                if got.get(f) not in allowed and fail is None:
                    fail = 'crash at call %d (%s, %s) during %r: %s holds %r; before the write it held %r' % (
                        ci, call[0], how, hist[i], f, (got.get(f) or b'<absent>')[:70], (prev or b'<absent>')[:70])
            # a new correlator must load every store with as many entries as its file holds
            probe = CorrSim(directory=work)
            try:
                try:
                    probe.op_dump()
                except Exception as e:      # noqa
                    fail = fail or 'a new correlator cannot use the directory after the crash: %r' % (e,)
                for f, attr in STORES.items():
                    if f in got:
                        try:
                            n = len(json.loads(got[f]))
                        except Exception:      # noqa
                            n = -1
                        if n != len(getattr(probe.corr, attr)) and fail is None:
                            fail = 'crash at call %d (%s, %s) during %r: %s loads %d entries from content %r' % (
                                ci, call[0], how, hist[i], f, len(getattr(probe.corr, attr)), got[f][:60])
            finally:
                probe.close()
            shutil.rmtree(work, ignore_errors=True)
            sig = ('crash', call[0], how if isinstance(how, str) else 'partial', target, hist[i][0])
            line = '# crash %s op=%d call=%d how=%s' % (json.dumps(hist), i, ci, how)
            cases.append(Case(line, line, sig, fail, {'op': 'crash', 'hist': hist, 'i': i, 'call': ci, 'how': how}))
    finally:
        if tr is not None:
            tr.close()
        shutil.rmtree(base, ignore_errors=True)
    return cases


def generate(rng, tier):
    thorough = tier == 'thorough'
    for _ in range(1500 if thorough else 400):
        yield pd_case(rng, rng.randrange(1, 12))
    for _ in range(300 if thorough else 80):
        yield restart_case(rng)
    for _ in range(60 if thorough else 16):
        yield reboot_case(rng)
    yield schedule_case()
    yield hook_crash_case(rng)
    for _ in range(120 if thorough else 30):
        for c in crash_cases(rng, 40 if thorough else 14):
            yield c


def replay(inp):
    if inp.get('op') == 'pd':
        return Case(inp['line'], '', None, None, inp)
    if inp.get('op') == 'restart':
        return restart_case(None, fixed=(inp['hist'], inp['at']))
    if inp.get('op') == 'hook-crash':
        return hook_crash_case(None)
    if inp.get('op') == 'scheduled':
        return schedule_case()
    if inp.get('op') == 'reboot':
        return reboot_case(None, fixed=(inp['n'], inp['uptime'], inp['after'], inp['order']))
    if inp.get('op') == 'crash':
        cs = crash_cases(None, 50, fixed=(inp['hist'], inp['i'], inp['call'], inp['how']))
        bad = [c for c in cs if c.fail]
        return (bad or cs)[0]
    return Case('# ' + json.dumps(inp)[:200], '', None, None, inp)


def classify(case):
    return None
