"""C15 — wire discipline: event traces of real sessions (virtual-time loop, scripted SMSC, hooks that
suspend) must be accepted by the Lean monitor; independent predicates on the same traces."""
import asyncio
import struct
from vlib import Case
from sim.simlib import Sim, pdu

ID = 'C15'
TARGETS = ['SmppVerif.Props.C15']
THOROUGH_ROUNDS = 3
RULE = ('sessions in all three bind modes with: bursts of queued messages (plain and segmented) while the sending hook suspends for '
        'random times (so several _send_data invocations are in flight: sender, responses of the receiver, keep-alive probes, the '
        'unbind of stop()), deliver_sm / enquire_link / unsupported requests / unparsable PDUs from the SMSC at random moments '
        'with the received hook suspending, peer-initiated drops and rejected binds (reconnects), stop() at a random moment. The '
        'whole event trace (connect, sending-hook calls, write calls, PDUs delivered by the peer, received-hook calls and returns, '
        'successful binds) is one model line. distinct-nontrivial = distinct (bind mode, traffic mix, hook delay pattern, number '
        'of connections, stop position class)')
TRUSTED = ['Lean 4.33.0 kernel', 'axioms: propext, Quot.sound, Classical.choice', 'tools/sim/simlib.py',
           'the monitor matches write calls and hook calls by their bytes']
ASSUMPTIONS = ['PDUs in flight at the same time differ in at least one octet (sequence numbers)',
               'a PDU delivered by the peer right before the link is dropped or stop() may legitimately stay unread']
EXHAUSTIVE = {'quick': False, 'thorough': False}

MODES = {'TRANSCEIVER': 9, 'TRANSMITTER': 2, 'RECEIVER': 1}


def deliver_body(text=b'hi', esm=0, dc=0, extra=b''):
    return b'\x00' * 7 + bytes([esm]) + b'\x00' * 6 + bytes([dc]) + b'\x00' + bytes([len(text)]) + text + extra


def scenario(rng):
    mode = rng.choice(('TRANSCEIVER', 'TRANSCEIVER', 'TRANSMITTER', 'RECEIVER'))
    horizon = rng.choice((20.0, 40.0))
    hook_pat = rng.choice(('none', 'sending', 'received', 'both', 'long'))
    n_msgs = rng.randrange(0, 14)
    n_in = rng.randrange(0, 12)
    drops = rng.choice((0, 0, 1, 2))
    reject_first = rng.random() < 0.2
    stop_at = round(rng.uniform(0.5, horizon), 3) + 0.0003
    seed = rng.randrange(10 ** 9)
    stalls = rng.choice((0, 0, 1, 3))
    return dict(stalls=stalls, mode=mode, horizon=horizon, hook=hook_pat, n_msgs=n_msgs, n_in=n_in, drops=drops, reject_first=reject_first,
                stop_at=stop_at, seed=seed)


def run(sc):
    import random
    from aiosmpplib.state import BindMode
    from aiosmpplib.protocol import SubmitSm
    rng = random.Random(sc['seed'])
    s = Sim(task_order=(1, 7)[sc['seed'] % 2], enquire_link_interval=rng.choice((3.0, 7.0)), socket_timeout=2.0,
            bind_mode=getattr(BindMode, sc['mode']))
    try:
        if sc['hook'] in ('sending', 'both', 'long'):
            for i in range(200):
                if rng.random() < 0.6:
                    s.hook.delays[('sending', i)] = rng.choice((0.01, 0.2, 0.7, 2.5 if sc['hook'] == 'long' else 0.05))
        if sc['hook'] in ('received', 'both', 'long'):
            for i in range(200):
                if rng.random() < 0.6:
                    s.hook.delays[('received', i)] = rng.choice((0.01, 0.3, 1.1))
        if sc.get('blocked_hook'):
            # the application's received hook hangs on the very first PDU it is handed after the bind, and the peer stops
            # answering keep-alive probes: the session is given up and its tasks are cancelled while the hook is suspended
            n_bind = 1 + (1 if sc['reject_first'] else 0)
            s.hook.delays[('received', n_bind)] = 60.0
            s.smsc.enquire = lambda conn, seq: None
        if sc['reject_first']:
            s.smsc.bind = lambda n: ('resp', 13) if n == 0 else ('resp', 0)
        # log what the peer delivers
        fed = []
        orig_later = s.smsc.later

        def feed_logged(conn, data):
            if not conn.closed and conn.reader is not None and not conn.reader.at_eof():
                s.ev('fed', conn.idx, data)
            conn.feed(data)
        # responses of the SMSC are fed through Conn.feed: wrap it per connection at creation
        orig_open = s.smsc.open_connection

        async def open_connection(*a, **kw):
            r = await orig_open(*a, **kw)
            conn = s.smsc.conns[-1]
            raw_feed = conn.feed

            def feed(data, conn=conn, raw_feed=raw_feed):
                if not conn.closed and conn.reader is not None and not conn.reader.at_eof() and conn.broken is None:
                    s.ev('fed', conn.idx, bytes(data))
                raw_feed(data)
            conn.feed = feed
            return r
        asyncio.open_connection = open_connection
        for _ in range(sc['n_msgs']):
            t = round(rng.uniform(0.1, sc['horizon']), 3)
            # (40000 and 70000 characters with auto_message_payload: PDUs larger than any buffer or slice size a writer may use)
            text = rng.choice(('hello', 'x' * 600, 'ж' * 200, 'y' * 9000, 'z' * 40000, 'w' * 70000 if rng.random() < 0.3 else 'v' * 33000))
            if sc.get('big'):
                text = rng.choice(('z' * 40000, 'v' * 17000, 'w' * 70000, 'u' * 33000))
            auto = rng.random() < 0.5
            s.at(t, s.enqueue, SubmitSm(short_message=text, auto_message_payload=auto, log_id='m'))
        seqs = {'n': 9000}

        def inbound(kind):
            if not s.smsc.conns:
                return
            conn = s.smsc.conns[-1]
            seqs['n'] += 1
            q = seqs['n']
            if kind == 'deliver':
                conn.feed(pdu(5, 0, q, deliver_body()))
            elif kind == 'enq':
                conn.feed(pdu(0x15, 0, q))
            elif kind == 'unsupported':
                conn.feed(pdu(0x103, 0, q, b'\x00'))
            elif kind == 'bad':
                conn.feed(pdu(5, 0, q, b'\xff'))
            elif kind == 'seg':
                conn.feed(pdu(5, 0, q, deliver_body(b'\x05\x00\x03\x07\x02\x01ab', esm=0x40)))
            elif kind == 'stray-resp':
                conn.feed(pdu(0x80000004, 0, q, b'id\x00'))
            elif kind == 'times':
                # schedule / validity strings of every kind: well-formed absolute and relative ones, wrong direction
                # characters, wrong lengths, non-digits - the PDU is a request and gets its one answer whatever they say
                sched = rng.choice((b'', b'260101120000000+', b'260101120000014-', b'000007000000000R', b'260101120000000Z',
                                    b'2601011200000000', b'26010112000000+', b'26130112000000 +', b'aaaaaaaaaaaaaaaa', b'R'))
                valid = rng.choice((b'', b'260101120000048-', b'260101120000000z', b'000000010000000R', b'99999999999999999'))
                body = b'\x00' * 7 + b'\x00' + b'\x00\x00' + sched + b'\x00' + valid + b'\x00' + b'\x00\x00' + b'\x00\x00' + b'\x02hi'
                conn.feed(pdu(5, 0, q, body))
            elif kind == 'huge':
                # the largest deliver_sm SMPP allows for: a message_payload of 65535 octets and a kilobyte of further parameters
                extra = struct.pack('!HH', 0x0424, 65535) + b'p' * 65535 + b''.join(
                    struct.pack('!HH', 0x1400 + j, 200) + b'v' * 200 for j in range(6))
                body = b'\x00' * 7 + b'\x00' + b'\x00' * 6 + b'\x00\x00' + b'\x00' + extra
                conn.feed(pdu(5, 0, q, body))
            elif kind == 'receipt':
                # delivery receipts as SMSCs write them: well-formed, without dates, dates with seconds, words for numbers,
                # fields the library does not know - each is a request and must be answered (response or nack) exactly once
                text = rng.choice((
                    b'id:77 sub:001 dlvrd:001 submit date:2501010000 done date:2501010001 stat:DELIVRD err:000 text:ok',
                    b'id:78 sub:001 dlvrd:000 submit date: done date: stat:UNKNOWN err:000 text:',
                    b'id:79 sub:001 dlvrd:001 submit date:250101000000 done date:250101000159 stat:DELIVRD err:000 text:',
                    b'id:80 sub:one dlvrd:001 submit date:2501010000 done date:2501010001 stat:UNDELIV err:N/A text:',
                    b'imsi:2190 id:81 sub:001 dlvrd:001 submit date:2501010000 done date:2513010001 stat:EXPIRED err:034',
                    b'stat:REJECTD', b'id:', b':', b''))
                conn.feed(pdu(5, 0, q, deliver_body(text, esm=4)))
            elif kind == 'unbind':
                # the peer ends the session; the application keeps queueing while the ESME winds the session down
                conn.feed(pdu(6, 0, q))
                for _k in range(rng.randrange(1, 3)):
                    s.at_rel(rng.choice((0.0005, 0.05, 0.2, 0.45, 0.6)), s.enqueue,
                             SubmitSm(short_message='after unbind', log_id='w'))
            elif kind == 'burst':
                conn.feed(pdu(5, 0, q, deliver_body()) + pdu(0x15, 0, q + 1) + pdu(5, 0, q + 2, deliver_body(b'yo')))
                seqs['n'] += 2
        for kind_f, t_f in sc.get('force_in', ()):
            s.at(t_f, inbound, kind_f)
        for _ in range(sc['n_in']):
            s.at(round(rng.uniform(0.1, sc['horizon']), 3) + 0.0001,
                 inbound, rng.choice(('deliver', 'deliver', 'enq', 'unsupported', 'bad', 'seg', 'stray-resp', 'burst', 'unbind', 'receipt', 'receipt', 'times', 'times', 'huge')))
        # back-pressure episodes: the peer stops reading for a while, so drain() really suspends
        for _ in range(sc.get('stalls', 0)):
            t0 = round(rng.uniform(0.5, sc['horizon']), 3) + 0.0004
            s.at(t0, lambda: s.smsc.conns and s.smsc.conns[-1].stall(True))
            s.at(t0 + rng.choice((0.3, 1.0, 2.5)), lambda: [c.stall(False) for c in s.smsc.conns])
        for _ in range(sc['drops']):
            td = round(rng.uniform(1.0, sc['horizon']), 3) + 0.0002
            s.at(td, lambda: s.smsc.conns and rng.choice((s.smsc.conns[-1].feed_eof, s.smsc.conns[-1].reset))())
            # ... and the application queues a message while the session is winding down
            s.at(td + rng.choice((0.0005, 0.05, 0.2, 0.45)), s.enqueue, SubmitSm(short_message='after drop', log_id='w'))
        s.at(sc['stop_at'], s.stop)
        s.run(sc['horizon'] + 100)
        ev = list(s.events)
        state = s.esme.session_state.name
    finally:
        s.close()
    return ev, state


def recognised(b):
    from corr.c05 import known_enum
    cmds, stats, _ = known_enum()
    if len(b) < 16:
        return False
    ln, cmd, st, _ = struct.unpack('!IIII', b[:16])
    return cmd in cmds and st in stats and ln == len(b)


def split_pdus(data):
    out = []
    while len(data) >= 16:
        ln = struct.unpack('!I', data[:4])[0]
        if ln < 16 or ln > len(data):
            break
        out.append(data[:ln])
        data = data[ln:]
    return out


def to_line(sc, ev):
    toks = []
    for e in ev:
        k = e[1]
        if k == 'connect' and e[3] == 'ok':
            pass
        elif k == 'sending':
            toks.append('A' + e[4].hex())
        elif k == 'write':
            toks.append('W%d:%s' % (e[2], e[3].hex()))
        elif k == 'fed':
            for p in split_pdus(e[3]):
                if recognised(p) and not (struct.unpack('!I', p[4:8])[0] in (0x80000001, 0x80000002, 0x80000009)):
                    toks.append('F%d:%s' % (e[2], p.hex()))
        elif k == 'received':
            cmd = struct.unpack('!I', e[3][4:8])[0]
            if cmd in (0x80000001, 0x80000002, 0x80000009):
                if e[6] in (0, 5) and e[2] is not None:
                    toks.append('B%d' % _conn_of(ev, e))
            else:
                toks.append('R' + e[3].hex())
        elif k == 'received-done':
            toks.append('D' + e[2].hex())
    # connections: a connect event precedes the first write on it
    out = []
    seen = set()
    for t in toks:
        if t[0] in 'WF':
            c = int(t[1:].split(':')[0])
            if c not in seen:
                seen.add(c)
                out.append('C%d' % c)
        if t[0] == 'B':
            c = int(t[1:])
            if c not in seen:
                seen.add(c)
                out.append('C%d' % c)
        out.append(t)
    return 'mon %d %s' % (MODES[sc['mode']], ' '.join(out))


def _conn_of(ev, e):
    """connection a bind response arrived on: the last connection written to before it"""
    i = ev.index(e)
    for x in reversed(ev[:i]):
        if x[1] == 'write':
            return x[2]
    return 0


def predicate(sc, ev, state):
    """independent of the monitor: framing of the written stream, hook-before-write, received exactly once"""
    announced = []
    per_conn = {}
    for e in ev:
        if e[1] == 'sending':
            announced.append(e[4])
        elif e[1] == 'write':
            per_conn.setdefault(e[2], []).append(e[3])
            if e[3] not in announced:
                return 'write of %s.. was not announced to the sending hook before' % e[3].hex()[:40]
            announced.remove(e[3])
    for c, ws in per_conn.items():
        stream = b''.join(ws)
        if b''.join(split_pdus(stream)) != stream:
            return 'the octets written on connection %d are not a concatenation of whole PDUs' % c
        first = struct.unpack('!I', ws[0][4:8])[0]
        if first != MODES[sc['mode']]:
            return 'first PDU on connection %d is %08x, not the bind request of mode %s' % (c, first, sc['mode'])
        if sc['mode'] == 'RECEIVER' and any(struct.unpack('!I', p[4:8])[0] == 4 for p in split_pdus(stream)):
            return 'submit_sm written by an ESME bound as receiver'
    # every response written echoes the sequence number of a request the peer delivered on that connection, once
    open_req = {}
    for e in ev:
        if e[1] == 'fed':
            for p in split_pdus(e[3]):
                if recognised(p) and struct.unpack('!I', p[4:8])[0] < 0x80000000:
                    open_req.setdefault(e[2], []).append(struct.unpack('!I', p[12:16])[0])
        elif e[1] == 'write':
            cmd, _st, seq = struct.unpack('!III', e[3][4:16])
            if cmd >= 0x80000000:
                lst = open_req.get(e[2], [])
                if seq not in lst:
                    return 'response %08x with sequence number %d answers no request delivered on connection %d' % (cmd, seq, e[2])
                lst.remove(seq)
    # a deliver_sm is answered (other than with a generic_nack) only after the received hook it was handed to has returned
    hook_done = set()
    fed_hdr = {}
    for e in ev:
        if e[1] == 'fed':
            for p in split_pdus(e[3]):
                if len(p) >= 16 and struct.unpack('!I', p[4:8])[0] == 5:
                    fed_hdr[(e[2], struct.unpack('!I', p[12:16])[0])] = bytes(p[:16])
        elif e[1] == 'received-done':
            hook_done.add(bytes(e[2]))
        elif e[1] == 'write' and len(e[3]) >= 16 and struct.unpack('!I', e[3][4:8])[0] == 0x80000005:
            seq = struct.unpack('!I', e[3][12:16])[0]
            h = fed_hdr.get((e[2], seq))
            if h is not None and h not in hook_done:
                return ('deliver_sm_resp for sequence number %d written at %.3f on connection %d although the received hook that was '
                        'handed the deliver_sm had not returned' % (seq, e[0], e[2]))
    # every request answered: in an undisturbed session (no scripted drop or stall, the peer never unbinds) every request
    # with a recognised header that was delivered well before stop() has its response by the end
    if not sc['drops'] and not sc.get('stalls') and sc['hook'] in ('none', 'sending') and not sc.get('blocked_hook'):      # (a slow received hook builds a backlog)
        fed_req = [(e[0], e[2], struct.unpack('!I', p[4:8])[0], struct.unpack('!I', p[12:16])[0])
                   for e in ev if e[1] == 'fed' for p in split_pdus(e[3])
                   if recognised(p) and struct.unpack('!I', p[4:8])[0] < 0x80000000]
        bound_at = {}
        for e in ev:
            if e[1] == 'fed':
                for p in split_pdus(e[3]):
                    if len(p) >= 16 and struct.unpack('!II', p[4:12]) in ((0x80000001, 0), (0x80000002, 0), (0x80000009, 0)):
                        bound_at.setdefault(e[2], e[0])
        if not any(cmd == 6 for _t, _c, cmd, _q in fed_req):
            for t, c, cmd, seq in fed_req:
                if c in bound_at and t > bound_at[c] and t < sc['stop_at'] - 5.0 and seq in open_req.get(c, []):
                    return 'request %08x with sequence number %d, delivered at %.3f on connection %d, was never answered' % (cmd, seq, t, c)
    # received exactly once: every fed recognised PDU that was answered or followed by later traffic reached the hook once
    fed = [p for e in ev if e[1] == 'fed' for p in split_pdus(e[3]) if recognised(p)]
    got = [e[3] for e in ev if e[1] == 'received']
    for p in set(got):
        if got.count(p) > fed.count(p):
            return 'PDU %s.. handed to the received hook %d times, delivered %d times' % (p.hex()[:40], got.count(p), fed.count(p))
    ended = [e for e in ev if e[1] == 'start-ended']
    if not ended:
        return 'start() still running 100 s after stop()'
    if ended[0][2] is not None:
        return 'start() ended with %s' % ended[0][2]
    bound_states = [e[2] for e in ev if e[1] == 'state' and e[2].startswith('BOUND')]
    want = {'TRANSCEIVER': 'BOUND_TRX', 'TRANSMITTER': 'BOUND_TX', 'RECEIVER': 'BOUND_RX'}[sc['mode']]
    if any(b != want for b in bound_states):
        return 'session state %s reported for bind mode %s' % ([b for b in bound_states if b != want][0], sc['mode'])
    return None


def case_of(sc):
    ev, state = run(sc)
    line = to_line(sc, ev)
    fail = predicate(sc, ev, state)
    nconn = len({e[2] for e in ev if e[1] == 'write'})
    stop_cls = 'early' if sc['stop_at'] < 2 else 'late' if sc['stop_at'] > sc['horizon'] - 2 else 'mid'
    sig = ('mon', sc['mode'], sc['hook'], min(sc['n_msgs'], 3), min(sc['n_in'], 3), nconn, stop_cls)
    return Case(line, 'accept', sig, fail, {'op': 'mon', 'sc': sc})


def generate(rng, tier):
    thorough = tier == 'thorough'
    for _ in range(600 if thorough else 150):
        yield case_of(scenario(rng))
    # directed: an undisturbed session (no drops, no stalls, hooks that return at once) in which the peer sends one request of
    # every kind, the largest PDUs included, early enough for every answer to be due
    for mode in ('TRANSCEIVER', 'RECEIVER'):
        sc = dict(stalls=0, mode=mode, horizon=40.0, hook='none', n_msgs=0, n_in=0, drops=0, reject_first=False, stop_at=35.0003,
                  seed=rng.randrange(10 ** 9), blocked_hook=True,
                  force_in=[['deliver', 1.0001], ['deliver', 1.5001], ['enq', 2.0001]])
        yield case_of(sc)
    kinds = ('deliver', 'enq', 'unsupported', 'bad', 'seg', 'receipt', 'times', 'huge', 'burst', 'huge', 'receipt', 'times')
    for mode in ('TRANSCEIVER', 'RECEIVER', 'TRANSMITTER'):
        for rep in range(3 if thorough else 1):
            sc = dict(stalls=0, mode=mode, horizon=40.0, hook=rng.choice(('none', 'sending')), n_msgs=rng.randrange(0, 3), n_in=0,
                      drops=0, reject_first=False, stop_at=30.0003, seed=rng.randrange(10 ** 9),
                      force_in=[[k, round(1.0 + 1.3 * i, 3) + 0.0001] for i, k in enumerate(kinds)])
            yield case_of(sc)


def replay(inp):
    return case_of(inp['sc'])


def classify(case):
    return None
