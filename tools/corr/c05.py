"""C05 — receive robustness: PDUs of every shape fed to a real bound session on the virtual-time loop;
what is written in answer and whether the link stays up is compared with the Lean receive model;
the property predicate is evaluated on the observed behaviour."""
import asyncio
import struct
from vlib import Case
from corr import pdulib as L
from corr.c03 import corruptions
from sim.simlib import Sim, pdu

ID = 'C05'
TARGETS = ['SmppVerif.Props.C05']
THOROUGH_ROUNDS = 10
RULE = ('PDUs fed to a bound session, one at a time, framing consistent (command_length = octets fed): every command id of the '
        'enum, supported and not, as request and response; library-built deliver_sm / submit_sm_resp / enquire_link / unbind / '
        'generic_nack with every corruption of the C03 stream (octet flips, inserted and deleted octets, sm_length and TLV length '
        'perturbations, invalid TON/NPI/status/data_coding values, non-ASCII and missing terminators, UDHI with short or '
        'inconsistent headers, undecodable text per data coding), delivery receipts with arbitrary and malformed text, foreign '
        'shapes of C04, random bodies; default alphabets gsm0338 / ucs2 / ascii / latin_1. After every PDU a valid enquire_link '
        'must still be answered. Stateful batches: segmented and plain messages are submitted and accepted first, then receipts for '
        'their segments arrive in any order, twice, for unknown ids, with the id in the text or in the parameter only. '
        'Stream cases with inconsistent framing (length field larger / smaller than the octets, '
        'truncation at every offset, garbage) are judged by the predicate only. distinct-nontrivial = distinct (command id, '
        'origin of the PDU, model action, observed action)')
TRUSTED = ['Lean 4.33.0 kernel', 'axioms: propext, Quot.sound, Classical.choice',
           'tools/extract.py gen_catch (except clauses of esme.py by AST; class hierarchy from the interpreter)',
           'tools/sim/simlib.py (virtual-time loop, in-memory transport)',
           'the decoder model is the one tied to protocol.py by the C03/C04/C20 correspondences']
ASSUMPTIONS = ['hooks return normally; writes succeed (transport failures are C07)',
               'text codecs outside the model (CJK, ISO-8859-x) are fed to the real session and judged by the predicate only']
EXHAUSTIVE = {'quick': False, 'thorough': False}

ENQ = 0x15


def known_enum():
    from aiosmpplib.state import SmppCommand, SmppCommandStatus, COMMAND_RESPONSE_MAP
    return ({int(c) for c in SmppCommand}, {int(s) for s in SmppCommandStatus}, {int(k) for k in COMMAND_RESPONSE_MAP})


def batch(pdus, default, tags, presubmit=None, age=0.0, age_at=None):
    """feed the PDUs one at a time to a bound session; returns per PDU the observation.
    presubmit: texts of messages the application sends first (the scripted SMSC accepts every PDU of them under the
    ids id1, id2, ...), so that the inbound PDUs meet a correlator that holds state;
    age, age_at: before the PDU with index age_at is fed, that much (virtual) time passes - days, for the entries of the
    delivery stores to outlive their time-to-live"""
    s = Sim(enquire_link_interval=1e6, socket_timeout=5.0, default_encoding=default)
    obs = []
    try:
        async def env():
            if presubmit:
                from aiosmpplib.protocol import SubmitSm
                for _ in range(400):
                    if s.esme.session_state.name.startswith('BOUND') and s.esme._bound.is_set():
                        break
                    await asyncio.sleep(0.01)
                for i, text in enumerate(presubmit):
                    s.enqueue(SubmitSm(short_message=text, auto_message_payload=False, log_id='P%d' % i, encoding='gsm0338'))
                await asyncio.sleep(1.0)
            for ip, p in enumerate(pdus):
                if age and ip == (age_at or 0):
                    await asyncio.sleep(age)
                # wait until bound
                for _ in range(400):
                    if s.esme.session_state.name.startswith('BOUND') and s.esme._bound.is_set():
                        break
                    await asyncio.sleep(0.01)
                conn = s.smsc.conns[-1]
                n0 = len(conn.pdus)
                nconn = len(s.smsc.conns)
                hooks0 = len([e for e in s.events if e[1] == 'received'])
                conn.feed(p)
                await asyncio.sleep(0.001)
                answers = [x for x in conn.pdus[n0:]]
                # then a valid enquire_link must be answered (on this or, after a reconnect, the next connection)
                dropped = conn.closed or len(s.smsc.conns) > nconn or not s.esme.session_state.name.startswith('BOUND')
                if dropped:
                    for _ in range(400):
                        if s.esme.session_state.name.startswith('BOUND') and s.esme._bound.is_set() \
                                and not s.smsc.conns[-1].closed and s.smsc.conns[-1] is not conn:
                            break
                        await asyncio.sleep(0.01)
                c2 = s.smsc.conns[-1]
                m0 = len(c2.pdus)
                c2.feed(pdu(ENQ, 0, 424242))
                await asyncio.sleep(0.001)
                probe = [x for x in c2.pdus[m0:]]
                hooks = len([e for e in s.events if e[1] == 'received']) - hooks0
                done = s.start_task.done()
                obs.append(dict(answers=answers, dropped=dropped, probe_ok=any(
                    struct.unpack('!III', x[4:16]) == (0x80000015, 0, 424242) for x in probe), hooks=hooks,
                    ended=(repr(s.start_task.exception()) if done and not s.start_task.cancelled() else None) if done else None))
                if done:
                    break            # start() is gone: the PDUs not yet fed are not judged
            s.stop()
        s.loop.create_task(env())
        res = s.run(10 ** 5 + age)
        started_ended_early = [e for e in s.events if e[1] == 'start-ended']
        stop_called = [e for e in s.events if e[1] == 'stop-called']
        early = bool(started_ended_early and (not stop_called or started_ended_early[0][0] < stop_called[0][0]))
        exc = started_ended_early[0][2] if started_ended_early else None
        if early and len(obs) < len(pdus) and not (obs and obs[-1]['ended'] is not None):
            # start() ended while the environment was waiting: the PDU fed last is the one that did it
            obs.append(dict(answers=[], dropped=True, probe_ok=False, hooks=0, ended='start() ended: %s' % exc))
    finally:
        s.close()
    return obs, early, exc


def show_action(o, p):
    if o['dropped'] and not o['answers']:
        return 'escape'
    if not o['answers']:
        return 'ignore'
    if len(o['answers']) == 1:
        a = o['answers'][0]
        cmd, st, seq = struct.unpack('!III', a[4:16])
        return 'respond %d %d %d' % (cmd, st, seq)
    return 'multiple ' + ' '.join(a[4:16].hex() for a in o['answers'])


def predicate(p, o, cmds, stats, reqs):
    ln, cmd, st, seq = struct.unpack('!IIII', p[:16])
    recognised = cmd in cmds and st in stats and ln == len(p) and ln >= 16
    if o['ended'] is not None:
        return 'start() ended: %r' % (o['ended'],)
    if not o['probe_ok']:
        return 'a valid enquire_link sent after the PDU was not answered'
    if not recognised:
        return None
    if cmd in reqs:
        if len(o['answers']) != 1:
            return 'request %08x seq %d answered with %d PDUs' % (cmd, seq, len(o['answers']))
        rc, rst, rseq = struct.unpack('!III', o['answers'][0][4:16])
        if rseq != seq:
            return 'response carries sequence number %d, the request %d' % (rseq, seq)
        if rc == 0x80000000:
            if rst == 0:
                return 'generic_nack with status ESME_ROK'
        elif rc != (cmd | 0x80000000):
            return 'request %08x answered with %08x' % (cmd, rc)
        if o['dropped'] and cmd != 6:
            return 'the link was dropped after a request with a recognised header'
    else:
        if o['answers']:
            return 'a response PDU (%08x) was answered with %s' % (cmd, o['answers'][0][4:8].hex())
        if o['dropped']:
            return 'the link was dropped after a response PDU with a recognised header'
    return None


def gen_pdus(rng, n):
    """(bytes, tag)"""
    from aiosmpplib import protocol as P
    from aiosmpplib.state import SmppCommand, SmppCommandStatus
    out = []
    cmds = [int(c) for c in SmppCommand]
    while len(out) < n:
        k = rng.randrange(12)
        seq = rng.choice((0, 1, 0x7FFFFFFF, 0xFFFFFFFF, rng.randrange(1, 2 ** 31)))
        if k == 0:
            out.append((pdu(rng.choice(cmds), rng.choice((0, 0, 8, 0x58)), seq, b''), 'cmd-empty'))
        elif k == 1:
            body = bytes(rng.randrange(256) for _ in range(rng.randrange(0, 40)))
            out.append((pdu(rng.choice(cmds), 0, seq, body), 'cmd-random-body'))
        elif k in (2, 3, 4):
            try:
                # (a library that refuses to build one of its own messages does not keep the check from feeding it the others)
                m = L.rand_sm(rng, 'DeliverSm')
                m.sequence_num = seq
                m.set_encoding_info(rng.choice(('gsm0338', 'ucs2', 'ascii')), None)
                base = m.pdu()
            except Exception:      # noqa
                continue
            if k == 2:
                out.append((base, 'deliver-valid'))
            else:
                for b in rng.sample(corruptions(rng, base, 12), 4):
                    if len(b) >= 16:
                        b = struct.pack('!I', len(b)) + b[4:]        # framing consistent
                        out.append((b, 'deliver-corrupt'))
        elif k == 5:
            # receipts, well-formed and not
            text = rng.choice(('id:abc sub:001 dlvrd:001 submit date:2501011200 done date:2501011201 stat:DELIVRD err:000 text:x',
                               'id:abc sub:zzz dlvrd:001', 'id:1 submit date:9913312400 done date:0000000000', 'id: err:-1 text',
                               'id:x done date:25010112', 'sub:1_0 err:+5 id:y', ':::', 'id:' + 'x' * 200,
                               # date fields of every length (two-digit groups missing or in excess), signs, blanks
                               'id:d1 submit date:2301', 'id:d2 done date:23', 'id:d3 done date:230101123',
                               'id:d4 submit date:2301011231000000', 'id:d5 done date:23010112310000001', 'id:d6 submit date:',
                               'id:d7 done date:250101120159', 'id:d8 done date:2501011201+1', 'id:d9 submit date:25 1 1 1 1',
                               'id:d10 done date:-501011201'))
            body = b'\x00\x00\x00\x00\x00\x00\x00' + bytes([rng.choice((4, 4, 0x24, 8))]) + b'\x00\x00\x00\x00\x00\x00' + \
                bytes([rng.choice((0, 1, 3))]) + b'\x00' + bytes([len(text)]) + text.encode('latin-1')
            out.append((pdu(5, 0, seq, body), 'receipt'))
        elif k == 6:
            try:
                m = L.rand_other(rng)
                m.sequence_num = seq
                base = m.pdu()
            except Exception:      # noqa
                continue
            out.append((base, 'other-valid'))
            for b in rng.sample(corruptions(rng, base, 8), 2):
                if len(b) >= 16:
                    out.append((struct.pack('!I', len(b)) + b[4:], 'other-corrupt'))
        elif k == 7:
            # UDHI with short / inconsistent header
            udh = rng.choice((b'', b'\x05', b'\x05\x00\x03\x01', b'\xff\x00\x03\x01\x02\x01', b'\x05\x00\x09\x01\x02\x01',
                              b'\x06\x08\x04\x00', b'\x02\x00\x03', b'\x05\x00\x03\x01\x00\x00'))
            sm = udh + b'ab'
            body = b'\x00\x00\x00\x00\x00\x00\x00' + b'\x40' + b'\x00\x00\x00\x00\x00\x00' + bytes([rng.choice((0, 8, 1))]) + \
                b'\x00' + bytes([len(sm)]) + sm
            out.append((pdu(5, 0, seq, body), 'udhi'))
        elif k == 8:
            # undecodable text per data coding
            dc, data = rng.choice(((0, b'\x80\xff'), (0, b'\x1b'), (8, b'\xd8\x00'), (8, b'\x00'), (1, b'\xff'), (2, b'\xff'),
                                   (4, b'\x80'), (5, b'\xff\xff'), (6, b'\xff'), (13, b'\xff'), (14, b'\x80\x80'), (0xF0, b'a'),
                                   (9, b'a'), (10, b'\xff')))
            body = b'\x00' * 7 + b'\x00' + b'\x00' * 6 + bytes([dc]) + b'\x00' + bytes([len(data)]) + data
            out.append((pdu(5, 0, seq, body), 'text-dc%d' % dc))
        elif k == 9:
            from corr import c04
            fp, _d, _e, kind = c04.foreign(rng)
            out.append((fp, 'foreign-' + kind))
        elif k == 10:
            # TLV length perturbations
            tl = rng.choice((b'\x02\x04\x00\x02\x00', b'\x02\x04\xff\xff\x00\x01', b'\x04\x24\x00\x05ab', b'\x00\x1e\x00\x00',
                             b'\x02\x04\x00\x03\x00\x01\x02', b'\x13\x0c\x00\x01\x01', b'\x02\x04'))
            body = b'\x00' * 7 + b'\x00' + b'\x00' * 6 + b'\x00\x00' + b'\x02hi' + tl
            out.append((pdu(5, 0, seq, body), 'tlv-length'))
        else:
            out.append((pdu(rng.choice((0x15, 6, 0x80000015, 0x80000006, 0x80000000, 0x80000004, 0x80000009)), rng.choice((0, 3, 0x58)),
                            seq, rng.choice((b'', b'\x00', b'x\x00', b'\xff'))), 'simple'))
    return out[:n]


def window_case(rng):
    """an application that keeps a window of one outstanding submit_sm: its sending hook waits until the previous message has
    been answered (the received hook releases it).  While the Sender waits there, the SMSC sends requests of its own: each
    is answered at once, and every queued message goes out in the end."""
    from aiosmpplib.protocol import SubmitSm
    s = Sim(enquire_link_interval=1e6, socket_timeout=5.0)
    fail = None
    try:
        s.smsc.submit_delay = lambda seq: 1.0
        free = asyncio.Event()
        free.set()
        inner_s, inner_r = s.hook.sending, s.hook.received

        async def sending(m, p, cid):
            if type(m).__name__ == 'SubmitSm':
                await free.wait()
                free.clear()
            await inner_s(m, p, cid)

        async def received(m, p, cid):
            if type(m).__name__ in ('SubmitSmResp', 'GenericNack'):
                free.set()
            await inner_r(m, p, cid)
        s.hook.sending, s.hook.received = sending, received
        n = rng.randrange(3, 6)
        for k in range(n):
            s.at(1.0 + 0.001 * k, s.enqueue, SubmitSm(short_message='w%d' % k, log_id='w%d' % k))
        asked = []
        for j in range(n):
            t_q = round(1.2 + 1.0 * j + rng.uniform(0.0, 0.5), 3) + 0.0001
            seq = 900 + j
            kind = rng.choice((0x15, 5))
            body = b'' if kind == 0x15 else (b'\x00' * 7 + b'\x00' + b'\x00' * 6 + b'\x00\x00' + b'\x02hi')
            asked.append((t_q, seq))
            s.at(t_q, lambda kind=kind, seq=seq, body=body: s.smsc.conns and s.smsc.conns[-1].feed(pdu(kind, 0, seq, body)))
        s.at(1.0 + n * 1.0 + 5.0, s.stop)
        s.run(200.0)
        ev = list(s.events)
        writes = [(e[0], e[3]) for e in ev if e[1] == 'write']
        for t_q, seq in asked:
            ans = [t for t, p in writes if len(p) >= 16 and struct.unpack('!I', p[4:8])[0] >= 0x80000000 and struct.unpack('!I', p[12:16])[0] == seq]
            if not ans or ans[0] > t_q + 0.2:
                fail = ('the request with sequence number %d, sent by the SMSC at %.3f while the Sender was waiting in the application\'s '
                        'sending hook, was %s' % (seq, t_q, 'never answered' if not ans else 'answered only at %.3f' % ans[0]))
                break
        sent = [p for _t, p in writes if p[4:8] == b'\x00\x00\x00\x04']
        if fail is None and len(sent) != n:
            fail = '%d of the %d queued messages were written' % (len(sent), n)
        ended = [e for e in ev if e[1] == 'start-ended']
        if fail is None and (not ended or ended[0][2] is not None):
            fail = 'start() %s' % ('still running' if not ended else 'ended with %s' % ended[0][2])
    except Exception as e:      # noqa
        fail = 'the scenario raised %r' % (e,)
    finally:
        s.close()
    line = '# window-of-one'
    return Case(line, line, ('window',), fail, {'op': 'window'})


def generate(rng, tier):
    thorough = tier == 'thorough'
    for _ in range(6 if thorough else 2):
        yield window_case(rng)
    cmds, stats, reqs = known_enum()
    for _ in range(40 if thorough else 10):
        default = rng.choice(('gsm0338', 'gsm0338', 'ucs2', 'ascii', 'latin_1'))
        items = gen_pdus(rng, 60)
        obs, early, exc = batch([p for p, _ in items], default, [t for _, t in items])
        for (p, tag), o in zip(items, obs):
            fail = predicate(p, o, cmds, stats, reqs)
            real = show_action(o, p)
            line = 'rx %s %s' % (L.enc_triple(default), p.hex())
            ln, cmd, st, seq = struct.unpack('!IIII', p[:16])
            sig = ('rx', '%08x' % cmd if cmd in cmds else 'unknown-cmd', tag, real.split(' ')[0] + (real.split(' ')[1][-3:] if ' ' in real else ''))
            inp = {'op': 'rx', 'default': default, 'hex': p.hex()}
            opaque = _opaque(p)
            if opaque:
                yield Case('# opaque ' + line, '# opaque ' + line, sig, fail, inp)
            else:
                yield Case(line, real, sig, fail, inp)
    # inbound PDUs meeting a correlator that holds state: segmented and plain messages were submitted and accepted
    # (ids id1, id2, ...), then receipts arrive for their segments in any order, twice, for unknown ids, between other PDUs
    for bi in range(18 if thorough else 6):
        default = rng.choice(('gsm0338', 'gsm0338', 'ucs2'))
        nsegs = [rng.choice((2, 3))] + [rng.choice((1, 2, 2, 3)) for _ in range(rng.randrange(0, 3))]     # one segmented message at least
        texts = ['hello' if n == 1 else 'x' * (254 * (n - 1) + 20) for n in nsegs]
        total = sum(nsegs)
        ids = ['id%d' % (i + 1) for i in range(total)]
        order = ids[:] + [rng.choice(ids), 'nosuchid']
        rng.shuffle(order)
        order.remove('id1')
        order.insert(0, 'id1')          # a segment of the segmented message first (its receipt gets the word-valued error code)
        items = []
        for k, mid in enumerate(order):
            err = rng.choice((0, 0, 0, 17))
            how = rng.randrange(3)
            text = 'id:%s sub:001 dlvrd:001 submit date:2501011200 done date:2501011201 stat:DELIVRD err:%03d text:x' % (mid, err)
            if k == 0 or rng.random() < 0.4:
                # a receipt for a known id whose other fields are not what the format prescribes (vendor codes, empty or
                # missing fields): whatever the parser makes of them meets a correlator that knows the id
                bad = rng.choice(('err:E42', 'err:ABC', 'err:N/A', 'err:E42', 'err:', 'err:-1', 'err:1_0', 'sub:abc', 'dlvrd:', 'submit date:25010112',
                                  'done date:9913011201', 'stat:', 'err:0x11', 'err:' + '9' * 40,
                                  'submit date:2301', 'done date:23', 'done date:230101123', 'submit date:2301011231000000',
                                  'done date:23010112310000001', 'submit date:', 'done date:250101120159'))
                if k == 0:
                    bad = rng.choice(('err:ABC', 'err:E42', 'err:N/A'))       # (the first receipt of every batch: a word for the error code)
                key = bad.split(':')[0]
                parts = text.split(' text:')[0]
                import re as _re
                parts = _re.sub(r'%s:[^ ]*( |$)' % _re.escape(key) if ' ' not in key else r'%s:[0-9]*( |$)' % _re.escape(key),
                                bad + ' ', parts + ' ').strip()
                text = parts + ' text:x'
            extra = b''
            if how == 1:        # id only in the receipted_message_id parameter
                text = text[len('id:%s ' % mid):]
                extra = struct.pack('!HH', 0x001E, len(mid) + 1) + mid.encode() + b'\x00'
            body = b'\x00' * 7 + b'\x04' + b'\x00' * 6 + b'\x00\x00' + bytes([len(text)]) + text.encode() + extra
            items.append((pdu(5, 0, 0x9000 + k, body), 'receipt-stateful'))
            if rng.random() < 0.3:
                items.extend(gen_pdus(rng, 1))
        # in some batches days pass in the middle: what the delivery stores hold (ids of accepted segments, the first part of
        # an inbound concatenated message) outlives its time-to-live and is swept by the next PDU that touches the correlator
        # (in every third batch, and late in the batch: the receipts before the pause meet the ids while they are known)
        age = 3 * 86400.0 + 5.0 if bi % 3 == 2 else 0.0
        age_at = rng.randrange(max(1, (2 * len(items)) // 3), len(items) + 1)
        if age:
            first_part = b'\x00' * 7 + b'\x40' + b'\x00' * 6 + b'\x00\x00' + b'\x08' + b'\x05\x00\x03\x4d\x02\x01ab'
            items.insert(age_at, (pdu(5, 0, 0x8fff, first_part), 'first-part-before-the-pause'))
            age_at += 1
            # ... and whatever the draw of age_at, one receipt comes after the pause: the sweep over the aged stores runs
            late = 'id:late sub:001 dlvrd:001 submit date:2501011200 done date:2501011201 stat:DELIVRD err:000 text:x'
            items.append((pdu(5, 0, 0x8ffe, b'\x00' * 7 + b'\x04' + b'\x00' * 6 + b'\x00\x00' + bytes([len(late)]) + late.encode()),
                          'receipt-after-the-pause'))
        obs, early, exc = batch([p for p, _ in items], default, [t for _, t in items], presubmit=texts, age=age, age_at=age_at)
        for (p, tag), o in zip(items, obs):
            fail = predicate(p, o, cmds, stats, reqs)
            real = show_action(o, p)
            line = 'rx %s %s' % (L.enc_triple(default), p.hex())
            ln, cmd, st, seq = struct.unpack('!IIII', p[:16])
            sig = ('rx', '%08x' % cmd if cmd in cmds else 'unknown-cmd', tag, real.split(' ')[0] + (real.split(' ')[1][-3:] if ' ' in real else ''))
            inp = {'op': 'rx-stateful', 'default': default, 'presubmit': texts, 'pdus': [q.hex() for q, _ in items],
                   'index': items.index((p, tag)), 'age': age, 'age_at': age_at}
            if _opaque(p):
                yield Case('# opaque ' + line, '# opaque ' + line, sig, fail, inp)
            else:
                yield Case(line, real, sig, fail, inp)
    # whole streams delivered in arbitrary pieces
    for _ in range(60 if thorough else 16):
        yield chunked_stream_case(rng, rng.choice(('gsm0338', 'gsm0338', 'ucs2', 'latin_1')))
    # streams with inconsistent framing: predicate only
    for _ in range(30 if thorough else 8):
        yield stream_case(rng)
    # directed (drawn from nothing: the cases above are what they were): receipts whose date / count fields are digits
    # only but far beyond any date - whatever arithmetic a parser does on them (seconds, offsets, years) must end in a
    # nack or an answer, not in an exception the receiver does not expect
    texts = ['id:L1 done date:2309301200' + '9' * 15, 'id:L2 submit date:' + '1' * 40, 'id:L3 done date:250101120199999999',
             'id:L4 submit date:2501011200 done date:2501011201' + '0' * 30, 'id:L5 sub:' + '9' * 30 + ' dlvrd:' + '9' * 30,
             'id:L6 done date:9999999999' + '9' * 90, 'id:L7 submit date:0000000000' + '8' * 12,
             'id:L8 done date:250101120160', 'id:L9 done date:25010112010000000000000000000001']
    items = []
    for i, text in enumerate(texts):
        for esm in (4, 0):
            body = b'\x00\x00\x00\x00\x00\x00\x00' + bytes([esm]) + b'\x00\x00\x00\x00\x00\x00' + b'\x00' + b'\x00' + \
                bytes([len(text)]) + text.encode('latin-1')
            items.append((pdu(5, 0, 7000 + 2 * i + (esm == 0), body), 'receipt-long-digits'))
    for default in ('gsm0338', 'ascii'):
        obs, early, exc = batch([p for p, _ in items], default, [t for _, t in items])
        for (p, tag), o in zip(items, obs):
            fail = predicate(p, o, cmds, stats, reqs)
            real = show_action(o, p)
            line = 'rx %s %s' % (L.enc_triple(default), p.hex())
            sig = ('rx', '00000005', tag, real.split(' ')[0] + (real.split(' ')[1][-3:] if ' ' in real else ''))
            yield Case(line, real, sig, fail, {'op': 'rx', 'default': default, 'hex': p.hex()})


def chunked_stream_case(rng, default, fixed=None):
    """a stream of PDUs (valid, unparsable, unsupported, stray responses; possibly one with an unusable header, possibly
    an incomplete PDU at the end) delivered in pieces of arbitrary size, as TCP does: the responses written, in order,
    are compared with the stream-level model (rxs)"""
    if fixed is None:
        items = [q for q, _t in gen_pdus(rng, rng.randrange(3, 14)) if q[4:8] != b'\x00\x00\x00\x06' and not _opaque(q)
                 and len(q) >= 16 and struct.unpack('!I', q[:4])[0] == len(q)]
        tail = b''
        if rng.random() < 0.4:
            extra = gen_pdus(rng, 1)[0][0]
            tail = extra[:rng.randrange(1, max(2, len(extra)))]
            if len(tail) >= 16 and struct.unpack('!I', tail[:4])[0] <= len(tail):
                tail = tail[:15]
        stream = b''.join(items) + tail
        cuts = sorted(rng.sample(range(1, len(stream)), min(len(stream) - 1, rng.choice((0, 1, 3, 8, 25))))) if len(stream) > 1 else []
    else:
        stream = bytes.fromhex(fixed['hex'])
        cuts = fixed['cuts']
    pieces = [stream[a:b] for a, b in zip([0] + cuts, cuts + [len(stream)])]
    s = Sim(enquire_link_interval=1e6, socket_timeout=5.0, default_encoding=default)
    st = {}
    try:
        async def env():
            for _ in range(400):
                if s.esme.session_state.name.startswith('BOUND') and s.esme._bound.is_set():
                    break
                await asyncio.sleep(0.01)
            conn = s.smsc.conns[-1]
            st['n0'] = len(conn.pdus)
            st['conn'] = conn
            for piece in pieces:
                conn.feed(piece)
                await asyncio.sleep(rng.choice((0.0, 0.001, 0.2)) if fixed is None else 0.001)
            await asyncio.sleep(1.0)
            st['closed'] = conn.closed or s.smsc.conns[-1] is not conn
            st['done'] = s.start_task.done()
            s.stop()
        s.loop.create_task(env())
        s.run(10 ** 5)
        ended = [e for e in s.events if e[1] == 'start-ended']
        stops = [e for e in s.events if e[1] == 'stop-called']
        early = bool(ended and (not stops or ended[0][0] < stops[0][0]))
        answers = [struct.unpack('!III', x[4:16]) for x in st['conn'].pdus[st['n0']:] if x[4:8] != b'\x80\x00\x00\x06'
                   and x[4:8] != b'\x00\x00\x00\x06'] if 'conn' in st else []
    finally:
        s.close()
    real = 'ok ' + ' / '.join(['respond %d %d %d' % a for a in answers] + (['escape'] if st.get('closed') else []))
    fail = None
    if early:
        fail = 'start() ended (%s) while reading the stream' % (ended[0][2],)
    else:
        # independent predicate: every framed request with a recognised header before the first unusable header got exactly
        # one response echoing its sequence number, in order
        cmds, stats, reqs = known_enum()
        want = []
        i = 0
        while i + 16 <= len(stream):
            ln, cmd, stt, seq = struct.unpack('!IIII', stream[i:i + 16])
            if cmd not in cmds or stt not in stats or ln < 16:
                break
            if i + ln > len(stream):
                break
            if cmd in reqs:
                want.append(seq)
            i += ln
        got = [a[2] for a in answers]
        if got != want:
            fail = 'requests with sequence numbers %s were read, responses carry %s' % (want, got)
    line = 'rxs %s %s' % (L.enc_triple(default), stream.hex() or '-')
    return Case(line, real, ('rxs', len(pieces) if len(pieces) < 3 else 3, bool(st.get('closed')), min(len(answers), 4)), fail,
                {'op': 'rxs', 'default': default, 'hex': stream.hex(), 'cuts': cuts})


def _opaque(p):
    """deliver_sm / submit_sm naming a data coding whose codec is outside the model"""
    from corr.c03 import _names_opaque
    try:
        return _names_opaque(p)
    except Exception:      # noqa
        return False


def stream_case(rng, fixed=None):
    """garbage / truncated / mis-framed octets, then silence; the session must survive (at worst reconnect) and answer
    an enquire_link afterwards"""
    from aiosmpplib import protocol as P
    kind = rng.choice(('truncated', 'length-larger', 'length-smaller', 'random', 'short-header')) if fixed is None else fixed[0]
    m = P.DeliverSm(short_message='hello world', sequence_num=5)
    base = m.pdu()
    if fixed is not None:
        data = bytes.fromhex(fixed[1])
    elif kind == 'truncated':
        data = base[:rng.randrange(1, len(base))]
    elif kind == 'length-larger':
        data = struct.pack('!I', len(base) + rng.randrange(1, 50)) + base[4:]
    elif kind == 'length-smaller':
        data = struct.pack('!I', rng.choice((0, 1, 15, 16, len(base) - 1, len(base) - 5))) + base[4:]
    elif kind == 'random':
        data = bytes(rng.randrange(256) for _ in range(rng.randrange(1, 64)))
    else:
        data = base[:rng.randrange(1, 16)]
    s = Sim(enquire_link_interval=4.0, socket_timeout=2.0)
    fail = None
    try:
        state = {}

        async def env():
            for _ in range(400):
                if s.esme._bound.is_set():
                    break
                await asyncio.sleep(0.01)
            s.smsc.conns[-1].feed(data)
            await asyncio.sleep(30.0)          # silence: keep-alive decides
            for _ in range(2000):
                if s.esme._bound.is_set() and not s.smsc.conns[-1].closed:
                    break
                await asyncio.sleep(0.01)
            c2 = s.smsc.conns[-1]
            m0 = len(c2.pdus)
            # the stream may still be mis-framed on an old connection; on the current one send a clean probe
            c2.feed(pdu(ENQ, 0, 31337))
            await asyncio.sleep(0.01)
            state['probe'] = any(struct.unpack('!III', x[4:16]) == (0x80000015, 0, 31337) for x in c2.pdus[m0:])
            state['reconnects'] = len(s.smsc.conns)
            s.stop()
        s.loop.create_task(env())
        s.run(10 ** 4)
        ended = [e for e in s.events if e[1] == 'start-ended']
        stops = [e for e in s.events if e[1] == 'stop-called']
        if not stops or (ended and ended[0][0] < stops[0][0]) or (ended and ended[0][2] is not None):
            fail = 'start() ended (%s) after %s octets %s' % (ended[0][2] if ended else '?', kind, data.hex()[:60])
        elif not state.get('probe') and state.get('reconnects', 1) == 1:
            # still on the mis-framed connection: the probe is swallowed as body of the bogus PDU; acceptable only if the
            # keep-alive would eventually reset the link — it had 30 s (interval 4, time-out 2)
            fail = 'after %s octets the link neither recovered nor was re-established within 30 s' % kind
    finally:
        s.close()
    line = '# stream %s %s' % (kind, data.hex())
    return Case(line, line, ('stream', kind, state.get('reconnects')), fail, {'op': 'stream', 'kind': kind, 'hex': data.hex()})


def replay(inp):
    if inp.get('op') == 'window':
        import random
        return window_case(random.Random(1))
    cmds, stats, reqs = known_enum()
    if inp.get('op') == 'stream':
        return stream_case(None, fixed=(inp['kind'], inp['hex']))
    if inp.get('op') == 'rxs':
        import random
        return chunked_stream_case(random.Random(0), inp['default'], fixed=inp)
    if inp.get('op') == 'rx-stateful':
        pdus = [bytes.fromhex(h) for h in inp['pdus']]
        obs, early, exc = batch(pdus, inp['default'], ['replay'] * len(pdus), presubmit=inp['presubmit'],
                                age=inp.get('age', 0.0), age_at=inp.get('age_at'))
        i = min(inp['index'], len(obs) - 1)
        fail = predicate(pdus[i], obs[i], cmds, stats, reqs)
        if early and fail is None:
            fail = 'start() ended (%s)' % exc
        return Case('rx %s %s' % (L.enc_triple(inp['default']), pdus[i].hex()), show_action(obs[i], pdus[i]), None, fail, inp)
    p = bytes.fromhex(inp['hex'])
    obs, early, exc = batch([p], inp['default'], ['replay'])
    fail = predicate(p, obs[0], cmds, stats, reqs)
    if early and fail is None:
        fail = 'start() ended (%s)' % exc
    return Case('rx %s %s' % (L.enc_triple(inp['default']), p.hex()), show_action(obs[0], p), None, fail, inp)


def classify(case):
    return None
