"""Tier 2 harness: drives a real SimpleCorrelator and the real ESME._handle_response /
_handle_request (ESME not started) on a virtual clock, and renders every operation as a
line for the Lean correlator model.  Used by the C09, C13, C14, C01, C02 checks."""
import asyncio
import logging
import struct

Q = 1024
KINDS = {'SubmitSm': 'submit', 'DeliverSm': 'deliver', 'SubmitSmResp': 'submitresp', 'GenericNack': 'nack',
         'EnquireLink': 'enq', 'EnquireLinkResp': 'enqresp', 'Unbind': 'unbind', 'UnbindResp': 'unbindresp',
         'BindTransceiver': 'bind', 'BindTransceiverResp': 'bindresp'}


def tok(n):
    return '' if not n else 'L%d' % n


def untok(s):
    return 0 if not s else int(s[1:])


def nats(text):
    return ','.join(str(ord(c)) for c in text) if text else '-'


class Clock:
    def __init__(self):
        self.q = 0

    def monotonic(self):
        return self.q / Q


class CorrSim:
    def __init__(self, ttl_resp_q=15 * Q, ttl_deliv_q=100 * Q, directory=''):
        import aiosmpplib.correlator as cm
        import aiosmpplib.esme as em
        from aiosmpplib import ESME
        from aiosmpplib.hook import AbstractHook
        from aiosmpplib.throttle import AbstractThrottleHandler
        self.cm, self.em = cm, em
        self.clock = Clock()
        self._saved_time = cm.time
        cm.time = self.clock
        sim = self
        self.events = []
        self.nested_sweep = False
        self.nested_op = None
        self.gate = None
        self._in_nested = False

        class Hook(AbstractHook):
            async def sending(self, m, pdu, cid):
                sim.events.append(' S=' + sim.show(m))

            async def received(self, m, pdu, cid):
                sim.events.append(' R=' + ('none' if m is None else sim.show(m)))

            async def send_error(self, m, err, cid):
                sim.events.append(' E=' + sim.show(m))
                if sim.gate is not None:
                    # the scheduler of the harness decides when this hook call returns (tools/corr/c14.py sched_history)
                    await sim.gate(m)
                if (sim.nested_sweep or sim.nested_op) and not sim._in_nested:
                    # another task's correlator operation running while this hook call is
                    # suspended (its sweep, or the receiver handling a response), cf. DESIGN tier 3
                    sim._in_nested = True
                    try:
                        if sim.nested_op is not None:
                            op, sim.nested_op = sim.nested_op, None
                            await op(m)
                        else:
                            await sim.corr._remove_expired()
                    finally:
                        sim._in_nested = False

        class Thr(AbstractThrottleHandler):
            async def throttled(self):
                sim.events.append(' T')

            async def not_throttled(self):
                sim.events.append(' N')

            async def allow_request(self):
                return True

            async def throttle_delay(self):
                return 1.0
        self.loop = asyncio.new_event_loop()
        asyncio.set_event_loop(self.loop)
        self._ckw = dict(directory=directory, max_ttl_response=ttl_resp_q / Q, max_ttl_delivery=ttl_deliv_q / Q)
        self.corr = cm.SimpleCorrelator('c', **self._ckw)
        from sim.simlib import next_log_level
        self.esme = ESME('h', 1, 'sys', 'pw', hook=Hook(), correlator=self.corr, throttle_handler=Thr(),
                         log_handler=logging.NullHandler(), log_level=next_log_level())
        self.first_line = 'c.new %d %d' % (ttl_resp_q, ttl_deliv_q)

    def reload(self):
        """a restart: a new correlator instance on the same directory takes over"""
        old = self.corr
        self.corr = self.cm.SimpleCorrelator('c', **self._ckw)
        self.corr.hook = old.hook
        self.corr.client_id = getattr(old, 'client_id', '')
        self.esme.correlator = self.corr

    def close(self):
        self.cm.time = self._saved_time
        self.loop.close()

    def run(self, coro):
        return self.loop.run_until_complete(coro)

    # ---- rendering -----------------------------------------------------------------
    def show(self, m):
        from aiosmpplib.protocol import SubmitSm, DeliverSm, SubmitSmResp
        kind = KINDS.get(type(m).__name__, 'other')
        ref = sseq = tot = 0
        has = False
        text = ''
        uses = True
        is_r = False
        rid = ''
        rerr = '~'
        mid = ''
        lg = untok(getattr(m, 'log_id', ''))
        ex = untok(getattr(m, 'extra_data', ''))
        if isinstance(m, SubmitSm):
            ref, sseq, tot = m.get_segmentation_data()
            has = m.is_segmented()
            text = m.short_message or m.message_payload
            uses = bool(m.short_message)
            if isinstance(m, DeliverSm):
                is_r = m.is_receipt()
                if is_r:
                    d = m.parse_receipt()
                    rid = d.get('id', '')
                    rerr = str(d['err']) if 'err' in d else '~'
        if isinstance(m, SubmitSmResp):
            mid = m.message_id
        return ':'.join([kind, str(m.sequence_num), str(int(m.command_status)), str(lg), str(ex), str(ref), str(sseq),
                         str(tot), '1' if has else '0', nats(mid), nats(text), '1' if uses else '0',
                         '1' if is_r else '0', nats(rid), rerr])

    def take_events(self):
        ev = ''.join(self.events)
        self.events.clear()
        return ev

    # ---- object builders -------------------------------------------------------------
    def submit(self, seq, log=0, extra=0, sar=None, text='x'):
        from aiosmpplib.protocol import SubmitSm
        from aiosmpplib.state import OptionalParam, SAR_MSG_REF_NUM, SAR_SEGMENT_SEQNUM, SAR_TOTAL_SEGMENTS
        params = []
        if sar:
            params = [OptionalParam(SAR_MSG_REF_NUM, sar[0]), OptionalParam(SAR_SEGMENT_SEQNUM, sar[1]),
                      OptionalParam(SAR_TOTAL_SEGMENTS, sar[2])]
        # registered_delivery: every value that asks for some kind of receipt (bits 1-0: 01 always, 10 on failure; bit 4:
        # intermediate notification) in turn - the correlator does not look at it
        self._rd_turn = getattr(self, '_rd_turn', 0) + 1
        return SubmitSm(short_message=text, sequence_num=seq, log_id=tok(log), extra_data=tok(extra),
                        optional_params=params, registered_delivery=(1, 2, 1, 17, 18, 3)[self._rd_turn % 6])

    def resp(self, kind, seq, status=0, msg_id=''):
        from aiosmpplib import protocol as p
        from aiosmpplib.state import SmppCommandStatus
        st = SmppCommandStatus(status)
        if kind == 'submitresp':
            return p.SubmitSmResp(sequence_num=seq, command_status=st, message_id=msg_id)
        if kind == 'nack':
            return p.GenericNack(sequence_num=seq, command_status=st)
        cls = {'enqresp': p.EnquireLinkResp, 'unbindresp': p.UnbindResp, 'bindresp': p.BindTransceiverResp}[kind]
        return cls(sequence_num=seq, command_status=st)

    def request(self, kind, seq):
        from aiosmpplib import protocol as p
        cls = {'enq': p.EnquireLink, 'unbind': p.Unbind, 'bind': p.BindTransceiver}[kind]
        return cls(sequence_num=seq)

    def deliver(self, seq, text, sar=None, payload=False, receipt=None, tlv_id=None, esm=None, text_name='text'):
        """receipt: None or (id, err or None)"""
        from aiosmpplib.protocol import DeliverSm
        from aiosmpplib.state import (OptionalParam, SAR_MSG_REF_NUM, SAR_SEGMENT_SEQNUM, SAR_TOTAL_SEGMENTS,
                                      RECEIPTED_MESSAGE_ID)
        params = []
        if sar:
            if sar[0] is not None:
                params.append(OptionalParam(SAR_MSG_REF_NUM, sar[0]))
            if sar[1] is not None:
                params.append(OptionalParam(SAR_SEGMENT_SEQNUM, sar[1]))
            if sar[2] is not None:
                params.append(OptionalParam(SAR_TOTAL_SEGMENTS, sar[2]))
        esm_class = 0
        if receipt is not None:
            esm_class = 4
            rid, err = receipt
            text = 'id:%s sub:001 dlvrd:001 submit date:2501011200 done date:2501011201 stat:DELIVRD%s %s:%s' % (
                rid, '' if err is None else ' err:%03d' % err, text_name, text)
        if tlv_id is not None:
            params.append(OptionalParam(RECEIPTED_MESSAGE_ID, tlv_id))
        if esm is not None:
            esm_class = esm
        kw = dict(message_payload=text) if payload else dict(short_message=text)
        return DeliverSm(sequence_num=seq, esm_class=esm_class, optional_params=params, **kw)

    # ---- operations: each returns (model line, real output) --------------------------------
    def op_put(self, now, m):
        self.clock.q = now
        line = 'c.put %d %s' % (now, self.show(m))
        self.run(self.corr.put(m))
        return line, 'ok' + self.take_events()

    def op_get(self, now, r):
        self.clock.q = now
        line = 'c.get %d %s' % (now, self.show(r))
        o = self.run(self.corr.get(r))
        return line, 'ok' + self.take_events() + ' R=' + ('none' if o is None else self.show(o))

    def op_getseg(self, seq, remove):
        line = 'c.getseg %d %d' % (seq, 1 if remove else 0)
        st, code = self.run(self.corr.get_segmented(seq, remove))
        if st is None:
            return line, 'ok none %d' % code
        status = ','.join('%s=%d' % (k, v) for k, v in st.status.items())
        return line, 'ok some %d (%s) %s %s' % (
            code, status, 'none' if st.last_response is None else self.show(st.last_response),
            'none' if st.last_receipt is None else self.show(st.last_receipt))

    def op_putdel(self, now, mid, m):
        self.clock.q = now
        line = 'c.putdel %d %s %s' % (now, nats(mid), self.show(m))
        self.run(self.corr.put_delivery(mid, m))
        return line, 'ok' + self.take_events()

    def op_getdel(self, now, rc):
        self.clock.q = now
        line = 'c.getdel %d %s' % (now, self.show(rc))
        o = self.run(self.corr.get_delivery(rc))
        return line, 'ok' + self.take_events() + ' R=' + ('none' if o is None else self.show(o))

    def op_putdelseg(self, now, d):
        self.clock.q = now
        line = 'c.putdelseg %d %s' % (now, self.show(d))
        o = self.run(self.corr.put_delivery_segmented(d))
        return line, 'ok' + self.take_events() + ' R=' + ('none' if o is None else self.show(o))

    def _handled(self, res):
        if res is None:
            return 'dropped'
        if res is self.em._SUBMIT_SM_SEGMENT:
            return 'placeholder'
        return 'msg ' + self.show(res)

    def op_hresp(self, now, r):
        """through the real ESME._handle_response (PDU built by the library's own encoder)"""
        from aiosmpplib.protocol import SmppMessage
        self.clock.q = now
        line = 'c.hresp %d %s' % (now, self.show(r))
        pdu = r.pdu()
        hdr = SmppMessage.parse_header(pdu[:16])
        res = self.run(self.esme._handle_response(pdu, hdr))
        return line, 'ok' + self.take_events() + ' H=' + self._handled(res), res

    def op_hdel(self, now, d):
        from aiosmpplib.protocol import SmppMessage
        self.clock.q = now
        line = 'c.hdel %d %s' % (now, self.show(d))
        pdu = d.pdu()
        hdr = SmppMessage.parse_header(pdu[:16])
        res = self.run(self.esme._handle_request(pdu, hdr))
        return line, 'ok' + self.take_events() + ' H=' + self._handled(res), res

    def op_dump(self):
        c = self.corr

        def q(t):
            return int(round(t * Q))
        parts = []

        def part(name, fn):
            # a store whose entries do not have the expected shape is an observation (it differs from the model's dump),
            # not a failure of the harness
            try:
                parts.append(name + '[' + fn() + ']')
            except Exception as e:      # noqa
                parts.append('%s[unreadable:%s]' % (name, type(e).__name__))
        part('store', lambda: ' '.join('%s@%d=%s' % (k, q(v[0]), self.show(v[1])) for k, v in c._store.items()))
        part('seg', lambda: ' '.join('%s=%d.%d' % (k, v[0], v[1]) for k, v in c._segment_store.items()))
        part('status', lambda: ' '.join(
            '%s=(%s)/%d/%s/%s' % (k, ','.join('%s=%d' % kv for kv in st.status.items()), st.orig_submit_sm.sequence_num,
                                  'none' if st.last_response is None else self.show(st.last_response),
                                  'none' if st.last_receipt is None else self.show(st.last_receipt))
            for k, st in c._segment_status_store.items()))
        part('deliv', lambda: ' '.join('%s@%d=%d/%d' % (nats(k), q(v[0]), v[1].sequence_num, untok(v[1].log_id))
                                       for k, v in c._delivery_store.items()))
        part('dseg', lambda: ' '.join(
            '%s@%d=%s' % (k, q(v[0]), ','.join('%s.%s' % (sk, nats(sv)) for sk, sv in v[1].items()))
            for k, v in c._delivery_segment_store.items()))
        return 'c.dump', 'ok ' + ' '.join(parts)
