"""PDU-level harness shared by C03, C04, C12 (and C05/C06 later): rendering of real message
objects in the driver's line format, generators over the field space, the normalisation the
round-trip property allows."""
import struct
from datetime import datetime, timedelta, timezone

MODELLED = {'gsm0338': 'gsm', 'gsm0338_packed': 'gsmp', 'ucs2': 'ucs2', 'ascii': 'ascii', 'latin_1': 'latin1',
            'latin-1': 'latin1', 'iso8859-1': 'latin1'}


def nats(text):
    return ','.join(str(ord(c)) for c in text) if text else '-'


def hexs(b):
    return bytes(b).hex() if b else '-'


def enc_triple(name):
    """name/codec/dc as the Lean model wants it; None when the codec is outside the model"""
    from aiosmpplib.codec import find_codec_info
    from aiosmpplib.state import SmppDataCoding
    if name is None:
        return '~'
    if name in MODELLED:
        codec = MODELLED[name]
    else:
        try:
            find_codec_info(name)
            codec = 'opaque'
        except LookupError:
            codec = 'missing'
    dc = SmppDataCoding.__members__.get(name)
    return '%s/%s/%s' % (nats(name), codec, '~' if dc is None else int(dc.value))


def is_opaque(name):
    return name is not None and enc_triple(name).split('/')[1] == 'opaque'


def show_time(t):
    if t is None:
        return '~'
    if isinstance(t, datetime):
        if t.tzinfo is None:
            off = '-'
        else:
            o = getattr(t.tzinfo, 'offset', None)
            if o is None:
                o = t.utcoffset()
            off = str(o.days * 86400 + o.seconds)
        return 'a.%d.%d.%d.%d.%d.%d.%d.%s' % (t.year, t.month, t.day, t.hour, t.minute, t.second, t.microsecond, off)
    return 'r.%d.%d.%d' % (t.days, t.seconds, t.microseconds)


def show_phone(p):
    return '%d.%d.%s' % (int(p.ton), int(p.npi), nats(p.number))


def show_tlvs(params):
    if not params:
        return '-'
    out = []
    for p in params:
        v = p.value
        if isinstance(v, bool):
            out.append('%d:b:%d' % (p.tag, 1 if v else 0))
        elif isinstance(v, int):
            out.append('%d:i:%d' % (p.tag, v))
        else:
            out.append('%d:s:%s' % (p.tag, nats(v)))
    return ';'.join(out)


REGISTERED_HANDLERS = ('xmlcharrefreplace', 'backslashreplace', 'namereplace', 'surrogateescape', 'surrogatepass')


def show_errh(e):
    return e if e in ('strict', 'ignore', 'replace') else 'other'


def show_sm(m):
    return ' '.join([str(m.sequence_num), str(int(m.command_status)), nats(m.short_message), show_phone(m.source),
                     show_phone(m.destination), nats(m.service_type), str(m.esm_class), str(m.protocol_id),
                     str(m.priority_flag), show_time(m.schedule_delivery_time), show_time(m.validity_period),
                     str(m.registered_delivery), str(m.replace_if_present_flag), enc_triple(m.encoding),
                     str(m.sm_default_msg_id), nats(m.message_payload), show_tlvs(m.optional_params),
                     '1' if m.auto_message_payload else '0', show_errh(m.error_handling), nats(m.log_id),
                     nats(m.extra_data), hexs(m._encoded_message)])


def show_msg(m):
    from aiosmpplib import protocol as p
    n = type(m).__name__
    if n == 'SubmitSm':
        return 'submit ' + show_sm(m)
    if n == 'DeliverSm':
        return 'deliver ' + show_sm(m)
    if n in ('SubmitSmResp', 'DeliverSmResp'):
        return '%s %d %d %s %s %s' % ('submitresp' if n == 'SubmitSmResp' else 'deliverresp', m.sequence_num,
                                      int(m.command_status), nats(m.message_id), nats(m.log_id), nats(m.extra_data))
    if n == 'GenericNack':
        return 'nack %d %d %s %s' % (m.sequence_num, int(m.command_status), nats(m.log_id), nats(m.extra_data))
    kinds = {'BindTransceiver': 'bindtrx', 'BindTransmitter': 'bindtx', 'BindReceiver': 'bindrx'}
    if n in kinds:
        return '%s %d %d %s %s %s %d %d %d %s' % (kinds[n], m.sequence_num, int(m.command_status), nats(m.system_id),
                                                  nats(m.password), nats(m.system_type), m.interface_version,
                                                  int(m.addr_ton), int(m.addr_npi), nats(m.address_range))
    rk = {'BindTransceiverResp': 'bindresptrx', 'BindTransmitterResp': 'bindresptx', 'BindReceiverResp': 'bindresprx'}
    if n in rk:
        return '%s %d %d %s %s' % (rk[n], m.sequence_num, int(m.command_status), nats(m.system_id),
                                   '~' if m.sc_interface_version is None else m.sc_interface_version)
    simple = {'EnquireLink': 'enq', 'EnquireLinkResp': 'enqresp', 'Unbind': 'unbind', 'UnbindResp': 'unbindresp'}
    return '%s %d %d' % (simple[n], m.sequence_num, int(m.command_status))


def decode_pdu(pdu, default_encoding='gsm0338'):
    from aiosmpplib.protocol import SmppMessage, MESSAGE_TYPE_MAP
    hdr = SmppMessage.parse_header(pdu[:16])
    cls = MESSAGE_TYPE_MAP[hdr.smpp_command]
    return cls.from_pdu(pdu, hdr, default_encoding, None)


# ---------------------------------------------------------------------------------------
# generators
# ---------------------------------------------------------------------------------------

ASCII_POOL = 'abcXYZ019 +-_.:/@'
TEXTS = {
    'gsm0338': ['A', 'Hello world', '@£$¥èéùìòÇ', '{[€]}', 'x' * 160, 'y' * 254, 'z' * 255, 'w' * 300],
    'ucs2': ['ж', 'Привет', '中文', '\U0001F600', 'я' * 127, 'я' * 128, 'mixed ж 1', '\U0001F600' * 64],
    'ascii': ['plain', 'a' * 254, 'b' * 255, '~tilde^'],
    'latin_1': ['café', 'ÿ' * 200, 'ü' * 255],
    'gsm0338_packed': ['Hülk', 'seven77', 'eight888', 'p' * 200, '€' * 100],
}


def int_tags():
    from aiosmpplib import state as st
    return [t for t in (0x0005, 0x0006, 0x0007, 0x0008, 0x000D, 0x000E, 0x000F, 0x0010, 0x0017, 0x0019, 0x0030, 0x0201,
                        0x0204, 0x0205, 0x020A, 0x020B, 0x020C, 0x020D, 0x020E, 0x020F, 0x0210, 0x0302, 0x0304, 0x0420,
                        0x0421, 0x0422, 0x0425, 0x0426, 0x0427, 0x1201, 0x1203, 0x1204, 0x1380) if st.tag_data_type(t) is int]


def rand_tlv(rng, wf=True):
    from aiosmpplib.state import OptionalParam
    kind = rng.randrange(10)
    if kind < 6:
        tag = rng.choice(int_tags())
        width = OptionalParam(tag, 0).length
        mx = 256 ** width - 1
        v = rng.choice((0, 1, mx, mx - 1, rng.randrange(mx + 1)))
        if not wf and rng.random() < 0.3:
            v = rng.choice((-1, mx + 1, 2 ** 40))
        return OptionalParam(tag, v)
    if kind < 9:
        tag = rng.choice((0x001D, 0x001E, 0x0202, 0x0203, 0x0303, 0x0381, 0x1383, 0x0501, 0x0423, 0x1400, 0x3FFF, 0xFFFF, 0x0000))
        n = rng.choice((0, 1, 5, 64, 65))
        s = ''.join(rng.choice(ASCII_POOL) for _ in range(n))
        if not wf and rng.random() < 0.3:
            s = rng.choice((s + '\x00', 'é', s + 'ÿ', '\x00'))
        return OptionalParam(tag, s)
    return OptionalParam(0x130C, rng.random() < 0.7)


def rand_time(rng, wf=True):
    k = rng.randrange(6)
    if k < 3:
        return None
    if k == 3:
        return timedelta(days=rng.choice((0, 1, 29, 30, 364, 365, 441 if False else 440)), seconds=rng.randrange(86400))
    import calendar
    y = rng.randrange(2000, 2100)
    mo = rng.randrange(1, 13)
    d = rng.randrange(1, calendar.monthrange(y, mo)[1] + 1)
    off = rng.choice((None, 0, 900, -900, 3600, -10800, 43200, -43200, 20700))
    dt = datetime(y, mo, d, rng.randrange(24), rng.randrange(60), rng.randrange(60), rng.randrange(10) * 100000)
    if off is not None:
        dt = dt.replace(tzinfo=timezone(timedelta(seconds=off)))
    return dt


def rand_cstr(rng, maxlen):
    n = rng.choice((0, 1, maxlen, maxlen - 1 if maxlen > 1 else 0, rng.randrange(maxlen + 1)))
    return ''.join(rng.choice(ASCII_POOL) for _ in range(n))


def rand_sm(rng, cls_name='SubmitSm', wf=True, encoding='?'):
    from aiosmpplib import protocol as p
    from aiosmpplib.state import TON, NPI, PhoneNumber
    cls = getattr(p, cls_name)
    if encoding == '?':
        encoding = rng.choice((None, None, 'gsm0338', 'ucs2', 'ascii', 'latin_1', 'gsm0338_packed'))
    pool = TEXTS[encoding or rng.choice(('gsm0338', 'gsm0338', 'ucs2'))]
    text = rng.choice(pool)
    use_payload = rng.random() < 0.2
    byte = lambda: rng.choice((0, 1, 255, 254, rng.randrange(256)))          # noqa: E731
    kw = dict(
        sequence_num=rng.choice((0, 1, 0x7FFFFFFF, 0xFFFFFFFF, rng.randrange(1, 2 ** 31))),
        source=PhoneNumber(rand_cstr(rng, 20), rng.choice(list(TON)), rng.choice(list(NPI))),
        destination=PhoneNumber(rand_cstr(rng, 20), rng.choice(list(TON)), rng.choice(list(NPI))),
        service_type=rand_cstr(rng, 5),
        esm_class=byte() & 0xBF, protocol_id=byte(), priority_flag=byte(),
        schedule_delivery_time=rand_time(rng), validity_period=rand_time(rng),
        registered_delivery=byte(), replace_if_present_flag=byte(), sm_default_msg_id=byte(),
        encoding=encoding,
        optional_params=[rand_tlv(rng, wf) for _ in range(rng.choice((0, 0, 1, 2, 5)))],
        auto_message_payload=rng.random() < 0.8,
        error_handling=rng.choice(('strict', 'strict', 'replace', 'ignore')),
        log_id=rng.choice(('', 'log-1')), extra_data=rng.choice(('', 'x')),
    )
    if use_payload:
        kw['message_payload'] = text
    else:
        kw['short_message'] = text
    if not wf:
        r = rng.randrange(8)
        if r == 0:
            kw['esm_class'] = rng.choice((-1, -64, -255))
        elif r == 1:
            kw['sequence_num'] = rng.choice((-1, 2 ** 32 - 1, -2 ** 31))
        elif r == 2:
            kw['service_type'] = rng.choice(('é', 'a\x00b', '\x00'))
        elif r == 3:
            kw['encoding'] = rng.choice(('utf-8', 'nosuchcodec', 'octet_unspecified_I', 'latin-1', ''))
        elif r == 4:
            kw['error_handling'] = rng.choice(('xmlcharrefreplace', 'bogus', '', 'nohandler'))
        elif r == 5:
            kw['short_message' if not use_payload else 'message_payload'] = rng.choice(('ж' * 10, 'abc\ud800', '€€', 'x' * 70000))
        elif r == 6:
            kw['protocol_id'] = -3
        else:
            kw['registered_delivery'] = -200
    return cls(**kw)


def rand_other(rng):
    from aiosmpplib import protocol as p
    from aiosmpplib.state import TON, NPI, SmppCommandStatus
    seq = rng.choice((0, 1, 0x7FFFFFFF, rng.randrange(1, 2 ** 31)))
    st = rng.choice(list(SmppCommandStatus))
    k = rng.randrange(9)
    if k == 0:
        return rng.choice((p.SubmitSmResp, p.DeliverSmResp))(sequence_num=seq, command_status=st,
                                                             message_id=rand_cstr(rng, 64), log_id=rng.choice(('', 'L')),
                                                             extra_data=rng.choice(('', 'E')))
    if k == 1:
        return p.GenericNack(sequence_num=seq, command_status=st, log_id=rng.choice(('', 'L')))
    if k in (2, 3):
        cls = rng.choice((p.BindTransceiver, p.BindTransmitter, p.BindReceiver))
        return cls(sequence_num=seq, system_id=rand_cstr(rng, 15), password=rand_cstr(rng, 8), system_type=rand_cstr(rng, 12),
                   interface_version=rng.choice((0x34, 0, 255, 0x33)), addr_ton=rng.choice(list(TON)),
                   addr_npi=rng.choice(list(NPI)), address_range=rand_cstr(rng, 40))
    if k in (4, 5):
        cls = rng.choice((p.BindTransceiverResp, p.BindTransmitterResp, p.BindReceiverResp))
        return cls(sequence_num=seq, command_status=st, system_id=rand_cstr(rng, 15),
                   sc_interface_version=rng.choice((None, 0x34, 0, 255)))
    cls = rng.choice((p.EnquireLink, p.EnquireLinkResp, p.Unbind, p.UnbindResp))
    return cls(sequence_num=seq, command_status=st)


def normalise_expected(m, default_encoding='gsm0338'):
    """what the round trip may change (C03): returns a dict of the public fields the decoded
    message must show, computed from the original AFTER pdu() ran (which may switch encoding)"""
    d = {k: v for k, v in m.__dict__.items() if not k.startswith('_')}
    if 'short_message' in d:
        text = d['short_message'] or d['message_payload']
        # text over 254 octets (or given as payload) travels in message_payload
        enc_len = getattr(m, '_wire_len', None)
        if d['message_payload'] or (enc_len is not None and enc_len > 254):
            d['short_message'], d['message_payload'] = '', text
        elif enc_len is None:
            d['_either_field'] = text       # octet count unknown to the oracle: either field may carry the text
        # an explicitly named default alphabet reads back as automatic
        # (data_coding 0 = the configured default alphabet; it reads back as None when that is gsm0338
        #  and as the default's name otherwise - the same alphabet either way)
        if d['encoding'] in ('gsm0338', 'gsm0338_packed') or not d['encoding']:
            d['encoding'] = None if default_encoding == 'gsm0338' else default_encoding
        # an unset boolean parameter is simply absent
        d['optional_params'] = [p for p in (d['optional_params'] or []) if not (isinstance(p.value, bool) and p.value is False
                                                                               and p.tag == 0x130C)]
        # not transmitted: tracking fields, status of a request, local options
        d['log_id'] = ''
        d['extra_data'] = ''
        d['auto_message_payload'] = True
        d['error_handling'] = 'strict'
        d['command_status'] = type(d['command_status'])(0)
    if 'log_id' in d and 'short_message' not in d:
        d['log_id'] = ''
        d['extra_data'] = ''
    if type(m).__name__.startswith('Bind') and not type(m).__name__.endswith('Resp'):
        d['command_status'] = type(d['command_status'])(0)
    return d
