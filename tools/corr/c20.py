"""C20 — delivery receipt text: correspondence and property predicate."""
import itertools
from datetime import datetime
from vlib import Case, nats, exc_name

ID = 'C20'
TARGETS = ['SmppVerif.Props.C20']
THOROUGH_ROUNDS = 6
RULE = ('generated receipt dictionaries (ids over [0-9A-Za-z-_.:+/=], counts 0..999 and outside, dates 1969..2068 '
        'and outside, the seven standard states and others, err 0..999, texts with spaces/colons/empty/over 20 chars), '
        'built by encode_receipt and parsed back with random casing of field names, with/without the '
        'receipted_message_id parameter; malformed stream: missing fields, empty values, duplicate keys, short/odd '
        'dates, non-numeric counts, arbitrary ASCII; non-receipt esm_class values. distinct-nontrivial = distinct '
        '(operation, shape signature: which fields present/empty/odd, casing class, tlv presence, outcome class)')
TRUSTED = ['Lean 4.33.0 kernel', 'axioms: propext, Quot.sound, Classical.choice',
           'CPython str.find/lower/int()/strptime/strftime/f-string formatting (modelled, swept, not verified)',
           'tools/corr/c20.py + Driver.lean line protocol']
ASSUMPTIONS = ['str.lower() is modelled on ASCII only; generated field names are ASCII',
               'int() and strptime are modelled on ASCII digits only (strptime as the ordered-alternative regex of _strptime)',
               'the index-based scanner is modelled on the remaining suffix',
               'dates round-trip within the 100-year window 1969..2068 of the two-digit year (format limit)']
EXHAUSTIVE = {'quick': False, 'thorough': False}

STATES = ['DELIVRD', 'EXPIRED', 'DELETED', 'UNDELIV', 'ACCEPTD', 'UNKNOWN', 'REJECTD']


def _mods():
    from aiosmpplib.protocol import DeliverSm
    from aiosmpplib.state import OptionalParam, RECEIPTED_MESSAGE_ID
    return DeliverSm, OptionalParam, RECEIPTED_MESSAGE_ID


def show_val(v):
    if isinstance(v, bool):
        return 's' + nats(str(v))
    if isinstance(v, int):
        return 'i%d' % v
    if isinstance(v, datetime):
        return 'd%d.%d.%d.%d.%d' % (v.year, v.month, v.day, v.hour, v.minute)
    return 's' + nats(v)


def show_dict(d):
    return 'ok' + ''.join(' %s=%s' % (nats(k), show_val(v)) for k, v in d.items())


def parse_case(esm, tlv, text, expect=None, tag='raw'):
    """expect: None or the dictionary the property says must come back"""
    DeliverSm, OptionalParam, RMI = _mods()
    params = [] if tlv is None else [OptionalParam(RMI, tlv)]
    m = DeliverSm(short_message=text, esm_class=esm, optional_params=params)
    try:
        d = m.parse_receipt()
        out = show_dict(d)
    except Exception as e:      # noqa
        d = None
        out = 'exc ' + exc_name(e)
    fail = None
    # the library parses every inbound receipt more than once (guarded region of _handle_request, then correlation):
    # the same object parsed again must give the same dictionary
    try:
        out2 = show_dict(m.parse_receipt())
    except Exception as e:      # noqa
        out2 = 'exc ' + exc_name(e)
    if d is not None and out2 != out:      # (after a parse that raised, a second parse is not judged)
        fail = 'the same DeliverSm parsed a second time gives %s, the first time %s' % (out2[:200], out[:200])
    # an id comes from the text or from this object's parameter, from nowhere else
    if d is not None and fail is None and d.get('id') and tlv in (None, '') and 'id:' not in text.lower():
        fail = 'parsed id %r although neither the text nor a receipted_message_id parameter of this DeliverSm carries one' % (d.get('id'),)
    # another DeliverSm with the very same text but another receipted_message_id parameter (or none): its id is its own
    if d is not None and fail is None and (esm & 0b00111100) >> 2 == 1:
        for tlv2 in ('sibling-id', None):
            m2 = DeliverSm(short_message=text, esm_class=esm, optional_params=[] if tlv2 is None else [OptionalParam(RMI, tlv2)])
            try:
                d2 = m2.parse_receipt()
            except Exception as e:      # noqa
                fail = 'a second DeliverSm with the same text (parameter %r) raised %s' % (tlv2, exc_name(e))
                break
            text_id = d.get('id') if (tlv is None or d.get('id') != tlv) else None      # the id the text itself carries
            if tlv is not None and d.get('id') == tlv:
                # the first object's id may have come from its parameter: does the text carry one?
                try:
                    text_id = DeliverSm(short_message=text, esm_class=esm).parse_receipt().get('id')
                except Exception:      # noqa
                    text_id = None
            want_id = text_id if text_id else (tlv2 if tlv2 else text_id)
            if d2.get('id') != want_id:
                fail = 'a second DeliverSm with the same text and parameter %r parses to id %r, expected %r' % (tlv2, d2.get('id'), want_id)
                break
    if expect is not None and fail is None:
        if d is None:
            fail = 'parsing a well-formed receipt raised (%s)' % out
        else:
            for k, v in expect.items():
                got = d.get(k)
                if k == 'text':
                    ok = isinstance(got, str) and got.rstrip(' ') == v.rstrip(' ') and got.startswith(v)
                else:
                    ok = got == v and type(got) is type(v)
                if not ok:
                    fail = 'field %r: built from %r, parsed %r' % (k, v, got)
                    break
            if fail is None and set(d) - set(expect):
                fail = 'parser invented fields %r' % (set(d) - set(expect))
    shape = (tag, (esm & 0b00111100) >> 2 == 1, tlv is not None and (len(tlv) > 0),
             out.split(' ')[0] + (out[3:] if out.startswith('exc') else ''),
             0 if d is None else len(d))
    return Case('rcpt.parse %d %s %s' % (esm, '~' if tlv is None else nats(tlv), nats(text)), out, shape, fail,
                {'op': 'parse', 'esm': esm, 'tlv': tlv, 'text': text,
                 'expect': None if expect is None else {k: (v.isoformat() if isinstance(v, datetime) else v)
                                                        for k, v in expect.items()}})


def date_arg(d):
    return '~' if d is None else '%d.%d.%d.%d.%d' % (d.year, d.month, d.day, d.hour, d.minute)


def build_case(r):
    DeliverSm, _, _ = _mods()
    try:
        t = DeliverSm.encode_receipt(r)
        out = 'ok ' + nats(t)
    except Exception as e:      # noqa
        t = None
        out = 'exc ' + exc_name(e)
    line = 'rcpt.build %s %d %d %s %s %s %d %s' % (
        nats(r.get('id', '')), r.get('sub', 0), r.get('dlvrd', 0), date_arg(r.get('submit date')),
        date_arg(r.get('done date')), nats(r.get('stat', '')), r.get('err', 0), nats(r.get('text', '')))
    sig = ('build', len(r.get('text', '')) > 20, r.get('sub', 0) > 999 or r.get('sub', 0) < 0,
           r.get('submit date') is None)
    return Case(line, out, sig, None, {'op': 'build', 'r': {k: (v.isoformat() if isinstance(v, datetime) else v)
                                                            for k, v in r.items()}}), t


ID_CHARS = '0123456789ABCDEFabcdefxyzXYZ-_.:+/='


def rand_date(rng, wide=False):
    y = rng.randrange(1969, 2069) if not wide else rng.choice((1900, 1968, 2069, 2100, 1, 9999))
    m = rng.randrange(1, 13)
    import calendar
    d = rng.randrange(1, calendar.monthrange(y, m)[1] + 1)
    return datetime(y, m, d, rng.randrange(24), rng.randrange(60), rng.choice((0, 0, rng.randrange(60))))


def rand_receipt(rng):
    n = rng.choice((1, 1, 2, 8, 10, 20, 36, 64))
    rid = ''.join(rng.choice(ID_CHARS) for _ in range(n))
    text_kind = rng.randrange(7)
    text = ['', 'hello', 'a b:c d', ':', ' lead', 'x' * 20, 'more than twenty chars: yes indeed'][text_kind]
    if rng.random() < 0.3:
        text = ''.join(rng.choice('ab :Z9é中') for _ in range(rng.randrange(0, 30)))
    return {
        'id': rid,
        'sub': rng.choice((0, 1, 999, rng.randrange(1000))),
        'dlvrd': rng.choice((0, 1, 999, rng.randrange(1000))),
        'submit date': rand_date(rng),
        'done date': rand_date(rng),
        'stat': rng.choice(STATES + ['X', 'delivered', 'A:B', 'ÜBER'] if rng.random() < 0.8 else ['Q' * rng.randrange(1, 12)]),
        'err': rng.choice((0, 1, 999, rng.randrange(1000))),
        'text': text,
    }


def recase(rng, text, r):
    """random upper/lower casing of the field names of a built receipt"""
    def rc(word):
        mode = rng.randrange(4)
        if mode == 0:
            return word
        if mode == 1:
            return word.upper()
        if mode == 2:
            return word.lower()
        return ''.join(ch.upper() if rng.random() < 0.5 else ch.lower() for ch in word)
    # rebuild using the same layout as encode_receipt (names only differ in case)
    sd = r['submit date'].strftime('%y%m%d%H%M')
    dd = r['done date'].strftime('%y%m%d%H%M')
    return ('%s:%s %s:%03d %s:%03d %s:%s %s:%s %s:%s %s:%03d %s:%-20s'
            % (rc('id'), r['id'], rc('sub'), r['sub'], rc('dlvrd'), r['dlvrd'], rc('submit date'), sd,
               rc('done date'), dd, rc('stat'), r['stat'], rc('err'), r['err'], rc('Text'), r['text']))


def expected(r):
    e = dict(r)
    for k in ('submit date', 'done date'):
        e[k] = r[k].replace(second=0, microsecond=0, tzinfo=None)
    return e


def esme_case(rng):
    """a receipt as the application sees it: received by the ESME (which parses, logs and correlates it) and handed to the
    received hook, where the application calls parse_receipt() - the dictionary must still be the one the text was built from"""
    from corr.corrlib import CorrSim
    r = rand_receipt(rng)
    # (a text over the GSM alphabet that fits short_message: how a receipt travels in message_payload is not C20's business)
    r['text'] = rng.choice(('', 'hello', 'a b:c d', ':', 'x' * 20))
    r['stat'] = rng.choice(STATES)
    how = rng.choice(('id', 'noid', 'tlv'))
    if how != 'id':
        r = dict(r, id='')
    DeliverSm, OptionalParam, RMI = _mods()
    text = DeliverSm.encode_receipt(r)
    exp = expected(r)
    if how == 'tlv':
        exp['id'] = 'via-tlv'
    sim = CorrSim()
    fail = None
    try:
        d = sim.deliver(77, 'x', receipt=None)
        d.short_message = text
        d.esm_class = 4
        if how == 'tlv':
            d.optional_params = [OptionalParam(RMI, 'via-tlv')]
        _ln, _out, res = sim.op_hdel(100, d)
        if res is None or not hasattr(res, 'parse_receipt'):
            fail = 'the receipt was not handed to the received hook (%r)' % (res,)
        else:
            got = res.parse_receipt()
            for k, v in exp.items():
                g = got.get(k)
                ok = (isinstance(g, str) and g.rstrip(' ') == v.rstrip(' ')) if k == 'text' else (g == v and type(g) is type(v))
                if not ok:
                    fail = 'received through the ESME (log level %s): field %r built from %r, the hook reads %r' % (
                        sim.esme._logger.level if hasattr(sim.esme, '_logger') else '?', k, v, g)
                    break
    except Exception as e:      # noqa
        fail = 'receiving a well-formed receipt through the ESME raised %r' % (e,)
    finally:
        sim.close()
    line = '# receipt-via-esme %s %s' % (how, nats(text))
    return Case(line, line, ('via-esme', how), fail, {'op': 'via-esme', 'how': how, 'text': text})


def esme_segmented_case(rng):
    """receipts for the segments of a message the library segmented, handled by the ESME: the one receipt it hands to the
    hook in the end (the last failing one, or the first) must parse to what its own text says"""
    from corr.corrlib import CorrSim
    DeliverSm, OptionalParam, RMI = _mods()
    n = rng.choice((2, 3))
    states = [rng.choice(('DELIVRD', 'DELIVRD', 'UNDELIV')) for _ in range(n)]
    sim = CorrSim()
    fail = None
    try:
        t = 100
        for i in range(1, n + 1):
            t += 1
            sim.op_put(t, sim.submit(i, 44, 1044, sar=(9, i, n)))
        for i in range(1, n + 1):
            t += 1
            sim.op_hresp(t, sim.resp('submitresp', i, 0, 'sg%d' % i))
        res = None
        for k, i in enumerate(rng.sample(range(1, n + 1), n)):
            r = {'id': 'sg%d' % i, 'sub': 1, 'dlvrd': 1 if states[i - 1] == 'DELIVRD' else 0,
                 'submit date': rand_date(rng), 'done date': rand_date(rng), 'stat': states[i - 1],
                 'err': 0 if states[i - 1] == 'DELIVRD' else 5 + i, 'text': 'part %d' % i}
            d = sim.deliver(500 + k, 'x', receipt=None)
            d.short_message = DeliverSm.encode_receipt(r)
            d.esm_class = 4
            t += 1
            res = sim.op_hdel(t, d)[2]
        if res is None or res is sim.em._SUBMIT_SM_SEGMENT or not hasattr(res, 'parse_receipt'):
            fail = 'no receipt was handed to the hook after the receipts of all %d segments (%r)' % (n, res)
        else:
            got = res.parse_receipt()
            own = DeliverSm(short_message=res.short_message, esm_class=res.esm_class,
                            optional_params=list(res.optional_params or [])).parse_receipt()
            if show_dict(got) != show_dict(own):
                fail = ('the receipt handed to the hook (segment states %s) says %r in its text but parse_receipt() on it returns %s'
                        % (states, res.short_message[:60], {k: got.get(k) for k in ('id', 'stat', 'err')}))
    except Exception as e:      # noqa
        fail = 'handling the receipts of a segmented message raised %r' % (e,)
    finally:
        sim.close()
    line = '# receipts-of-segments-via-esme %d %s' % (n, ','.join(states))
    return Case(line, line, ('via-esme-seg', n, tuple(states)), fail, {'op': 'via-esme', 'how': 'segmented', 'states': states})


def generate(rng, tier):
    thorough = tier == 'thorough'
    n_main = 6000 if thorough else 1500
    for _ in range(60 if thorough else 18):
        yield esme_segmented_case(rng)
    for _ in range(120 if thorough else 36):
        yield esme_case(rng)
    for i in range(n_main):
        r = rand_receipt(rng)
        c, t = build_case(r)
        yield c
        esm = rng.choice((4, 4, 4, 0b00000111 & 4 | 0x40, 0x84))
        tlv = rng.choice((None, None, r['id'], 'other'))
        yield parse_case(esm, tlv, t, expected(r), 'built')
        t2 = recase(rng, t, r)
        yield parse_case(4, None, t2, expected(r), 'recased')
        # no id in the text -> id from the parameter
        r2 = dict(r, id='')
        c2, t3 = build_case(r2)
        yield c2
        e2 = expected(r2)
        e2['id'] = 'TLV-' + r['id']
        yield parse_case(4, 'TLV-' + r['id'], t3, e2, 'tlvid')
        # unknown fields are kept as strings
        extra = 'Foo:bar %s zip:%d' % (t, i)
        e3 = expected(r)
        e3['foo'] = 'bar'
        yield parse_case(4, None, extra.replace(' zip:%d' % i, ''), None, 'unknown')
    # dates outside the two-digit window, counts outside 0..999 (correspondence only)
    for _ in range(300):
        r = rand_receipt(rng)
        r['submit date'] = rand_date(rng, wide=True)
        r['sub'] = rng.choice((-1, -12, 1000, 12345, -999))
        c, t = build_case(r)
        yield c
        yield parse_case(4, None, t, None, 'wide')
    for r in ({}, {'id': 'x'}, {'text': 'only'}, {'id': 'a', 'sub': 5, 'err': 7}):
        c, t = build_case(r)
        yield c
        yield parse_case(4, None, t, None, 'partial')
    # unknown fields kept as strings, not-a-receipt
    yield parse_case(4, None, 'id:1 foo:bar Baz:q:r x', {'id': '1', 'foo': 'bar', 'baz': 'q:r'}, 'unknownkeys')
    for esm in range(0, 256):
        exp = None if (esm & 0b00111100) >> 2 == 1 else {}
        c = parse_case(esm, 'zz', 'id:1 sub:001 err:000 text:x', exp, 'esm')
        if exp == {} and c.out != 'ok':
            c.fail = 'a DeliverSm that is not a receipt must parse to an empty dictionary'
        yield c
    # malformed stream
    frags = ['id:', 'id:7', 'sub:', 'sub:1', 'sub:x', 'sub:+1_0', 'sub: 5', 'dlvrd:002', 'err:', 'err:1e3',
             'submit date:', 'submit date:2503041201', 'submit date:250304120', 'submit date:25030412011',
             'done date:9912312359', 'done date:0002300000', 'done date:6901010000', 'done date:6801010000',
             'done date:2502290000', 'done date:2402290000', 'done date:abc', 'done date:25 3 4 1 2',
             'done date:251304', 'done date:250 41201', 'stat:DELIVRD', 'stat:', 'Text:', 'text:a b', 'TEXT:x:y z',
             ':', '::', ' ', 'x', 'id:a id:b', 'ID:c', ' id:d', 'id :e', 'foo', 'foo:bar', 'Foo:Bar:Baz', 'a:b:c',
             'submit  date:1', 'sub:٣']
    for n in (1, 2, 3):
        combos = itertools.product(frags, repeat=n) if n < 3 else (
            tuple(rng.choice(frags) for _ in range(3)) for _ in range(4000 if thorough else 1200))
        for tup in combos:
            for sep in ((' ',) if n > 1 else ('',)):
                t = sep.join(tup)
                if t:
                    if not all(ord(ch) < 128 for ch in t):
                        continue
                    yield parse_case(4, rng.choice((None, 'tlv', '')), t, None, 'malformed')
    chars = 'id:sub err0123456789 :Text_+-dateSUBMIT'
    for _ in range(6000 if thorough else 1500):
        t = ''.join(rng.choice(chars) for _ in range(rng.randrange(1, 40)))
        yield parse_case(4, rng.choice((None, 'tlv')), t, None, 'random')


def replay(inp):
    if inp['op'] == 'via-esme':
        return Case('# ' + str(inp)[:200], '', None, None, inp)
    if inp['op'] == 'build':
        r = dict(inp['r'])
        for k in ('submit date', 'done date'):
            if isinstance(r.get(k), str):
                r[k] = datetime.fromisoformat(r[k])
        return build_case(r)[0]
    exp = inp.get('expect')
    if exp is not None:
        exp = dict(exp)
        for k in ('submit date', 'done date'):
            if isinstance(exp.get(k), str):
                exp[k] = datetime.fromisoformat(exp[k])
    return parse_case(inp['esm'], inp['tlv'], inp['text'], exp, 'replay')


def classify(case):
    return None
