"""C18 — rate limiter and throttle handler: correspondence and property predicates."""
import asyncio
import types
from fractions import Fraction
from vlib import Case

ID = 'C18'
TARGETS = ['SmppVerif.Props.C18']
THOROUGH_ROUNDS = 6
RULE = ('token bucket: dyadic rates 1/8..64 x arrival patterns (bursts, steady just above/below the rate, idle gaps, '
        'retry sleeps of exactly 1 s and longer) with every limit() call driven on a virtual clock; throttle handler: '
        'response sequences around sample_size and the percentage threshold, allow_request before/at/after the window '
        'end, several windows. distinct-nontrivial = distinct (object, rate class / threshold class, number of refusals '
        'bucket, refill-happened?, window-reset-happened?, outcome class). Session level: the real ESME.start() on the '
        'virtual-time loop with the real handler and limiter plugged in through recording subclasses, a scripted SMSC answering '
        'with throttled / queue-full / other statuses, multi-segment messages, a store or hook that suspends the Sender '
        'between segments: the observed trace (feeds, consultations, submit_sm writes) goes to the gate monitor (gate.mon), '
        'to the Sender model (gate.sender, when nothing suspends between consultation and write) and to an independent '
        'predicate (answers, one consultation per PDU, one feed per response, re-consultation after throttle_wait, rate bound '
        'on the wire, everything sent when never denied)')
TRUSTED = ['Lean 4.33.0 kernel', 'axioms: propext, Classical.choice, Quot.sound (Mathlib linarith/ring on Rat)',
           'IEEE-754 doubles: exactness enforced by dyadic times/rates in the generator, not proved',
           'tools/corr/c18.py (virtual clock patched into ratelimiter.time / throttle.time, asyncio.sleep patched)',
           'tools/corr/c18s.py + tools/sim/simlib.py (virtual-time event loop, scripted SMSC, recording subclasses of '
           'SimpleThrottleHandler / SimpleRateLimiter / SimpleCorrelator)']
ASSUMPTIONS = ['time.monotonic is the only clock the two objects read; asyncio.sleep(d) resumes after at least d',
               'effective_send_rate and logging do not influence decisions',
               'percentages are compared at the 0.01 resolution of round(x, 2); inputs within 0.005 of the threshold are '
               'outside the predicate (model and code are still compared on them when no float tie is involved)']
EXHAUSTIVE = {'quick': False, 'thorough': False}
Q = 1024


class Clock:
    def __init__(self, q=0):
        self.q = q                      # integer quanta of 1/1024 s

    def monotonic(self):
        return self.q / Q


class Starved(Exception):
    pass


def frac(q):
    f = Fraction(q, Q)
    return '%d/%d' % (f.numerator, f.denominator)


def rate_str(r):
    f = Fraction(r)
    return '%d/%d' % (f.numerator, f.denominator)


def bucket_case(rate, t0q, arrivals, sleeps, max_sleeps=4):
    """arrivals: quanta at which limit() is called (ascending, >= t0q); sleeps: iterator of
    sleep lengths in quanta (>= 1 s) consumed by refused attempts"""
    import aiosmpplib.ratelimiter as rl
    from aiosmpplib.log import StructuredLogger
    clock = Clock(t0q)
    attempts = []           # (time_q, passed)
    sleeps = list(sleeps)
    si = [0]

    async def fake_sleep(d):
        assert d == 1.0
        n_refused[0] += 1
        attempts.append((clock.q, 0))
        if n_refused[0] > max_sleeps:
            raise Starved()
        dq = sleeps[si[0] % len(sleeps)]
        si[0] += 1
        clock.q += dq
    saved_time, saved_asyncio = rl.time, rl.asyncio
    rl.time = clock
    rl.asyncio = types.SimpleNamespace(sleep=fake_sleep)
    n_refused = [0]
    starved = False
    fail = None
    try:
        lim = rl.SimpleRateLimiter(StructuredLogger('x', 'CRITICAL'), send_rate=float(rate))
        loop = asyncio.new_event_loop()
        try:
            for a in arrivals:
                if a > clock.q:
                    clock.q = a
                n_refused[0] = 0
                try:
                    loop.run_until_complete(lim.limit())
                    attempts.append((clock.q, 1))
                    if Fraction(rate) >= 1 and n_refused[0] > 2:
                        fail = 'a waiting caller needed %d sleeps of >= 1 s at rate %s' % (n_refused[0], rate)
                except Starved:
                    starved = True
                    fail = 'limit() did not return after %d sleeps of >= 1 s (rate %s)' % (max_sleeps, rate)
                    break
                except Exception as e:      # noqa
                    # the caller that should have been let through (now or after waiting) got an exception instead
                    attempts.append((clock.q, 2))
                    fail = 'limit() raised %s for the call at %s s (rate %s)' % (type(e).__name__, Fraction(clock.q, Q), rate)
                    break
        finally:
            loop.close()
    finally:
        rl.time, rl.asyncio = saved_time, saved_asyncio
    out = 'ok ' + ' '.join(str(p) for _t, p in attempts)
    line = 'tb.run %s %s %s' % (rate_str(rate), frac(t0q), ' '.join(frac(t) for t, _p in attempts))
    # window bound on the passes actually observed
    passes = [t for t, p in attempts if p]
    r = Fraction(rate)
    if fail is None:
        for i in range(len(passes)):
            for j in range(i, len(passes)):
                if (j - i + 1) > r * Fraction(passes[j] - passes[i], Q) + r + 1:
                    fail = '%d passes within %s s at rate %s' % (j - i + 1, Fraction(passes[j] - passes[i], Q), rate)
                    break
            if fail:
                break
    refused = sum(1 for _t, p in attempts if not p)
    sig = ('bucket', 'lt1' if r < 1 else ('eq1' if r == 1 else 'gt1'), min(refused, 3), starved, len(passes) > 3)
    return Case(line.rstrip(), out.rstrip(), sig, fail,
                {'op': 'bucket', 'rate': str(Fraction(rate)), 't0': t0q, 'arrivals': list(arrivals), 'sleeps': sleeps})


def throttle_case(period_q, sample, deny, t0q, ops):
    """ops: ('a', time_q) | ('t',) | ('n',)"""
    import aiosmpplib.throttle as th
    from aiosmpplib.log import StructuredLogger
    clock = Clock(t0q)
    saved = th.time
    th.time = clock
    res = []
    fail = None
    try:
        h = th.SimpleThrottleHandler(StructuredLogger('x', 'CRITICAL'), sampling_period=period_q / Q,
                                     sample_size=float(sample), deny_request_at=float(deny))
        loop = asyncio.new_event_loop()
        # independent reference of the statement: window counters, reset after the period
        thr = non = 0
        upd = t0q
        try:
            for op in ops:
                if op[0] == 't':
                    loop.run_until_complete(h.throttled())
                    thr += 1
                elif op[0] == 'n':
                    loop.run_until_complete(h.not_throttled())
                    non += 1
                else:
                    clock.q = op[1]
                    ok = loop.run_until_complete(h.allow_request())
                    res.append(1 if ok else 0)
                    total = thr + non
                    if total >= sample and total > 0:
                        pct = Fraction(100 * thr, total)
                        if abs(pct - Fraction(deny)) > Fraction(1, 200):
                            want = 0 if pct > Fraction(deny) else 1
                            if want != res[-1] and fail is None:
                                fail = ('allow_request=%s with %d/%d throttled (%.4f%%), sample_size %s, deny at %s'
                                        % (bool(ok), thr, total, float(pct), sample, deny))
                    elif not ok and fail is None:
                        fail = 'request denied with only %d < sample_size %s responses in the window' % (total, sample)
                    if op[1] - upd > period_q:
                        thr = non = 0
                        upd = op[1]
        finally:
            loop.close()
    finally:
        th.time = saved
    out = 'ok ' + ' '.join(str(x) for x in res)
    line = 'th.run %s %s %s %s %s' % (frac(period_q), rate_str(sample), rate_str(deny), frac(t0q),
                                      ' '.join(('a' + frac(o[1])) if o[0] == 'a' else o[0] for o in ops))
    sig = ('throttle', 0 in res, 1 in res, sum(1 for o in ops if o[0] == 'a') > 3,
           any(o[0] == 'a' and o[1] - t0q > period_q for o in ops))
    return Case(line.rstrip(), out.rstrip(), sig, fail,
                {'op': 'throttle', 'period': period_q, 'sample': str(Fraction(sample)), 'deny': str(Fraction(deny)),
                 't0': t0q, 'ops': [list(o) for o in ops]})


def generate(rng, tier):
    thorough = tier == 'thorough'
    rates = [Fraction(1, 8), Fraction(1, 2), Fraction(3, 4), 1, Fraction(5, 4), 2, 3, 8, 64]
    n = 1500 if thorough else 350
    for _ in range(n):
        rate = rng.choice(rates)
        t0 = rng.randrange(0, 5000)
        t = t0
        arr = []
        pattern = rng.randrange(5)
        for _i in range(rng.randrange(1, 40)):
            if pattern == 0:
                gap = 0 if rng.random() < 0.8 else rng.randrange(1, 3 * Q)
            elif pattern == 1:
                gap = int(Q / rate) + rng.choice((-1, 0, 1))
            elif pattern == 2:
                gap = rng.randrange(0, 8)
            elif pattern == 3:
                gap = rng.choice((0, 1, Q - 1, Q, Q + 1, 2 * Q, 10 * Q))
            else:
                gap = rng.randrange(0, 2 * Q)
            t += max(gap, 0)
            arr.append(t)
        sleeps = [rng.choice((Q, Q, Q + 1, Q + 7, 2 * Q, 3 * Q)) for _ in range(8)]
        yield bucket_case(rate, t0, arr, sleeps)
    # directed: exact-one-second retries at rate 1, bursts of r+1 at every rate
    for rate in rates:
        yield bucket_case(rate, 0, [1] * (int(rate) + 3), [Q])
        yield bucket_case(rate, 0, [Q] * 5 + [2 * Q] * 5, [Q])
        yield bucket_case(rate, 7, [7 + int(Q / rate) + 1] * 4, [Q + 1])
    # throttle
    for _ in range(2500 if thorough else 500):
        sample = rng.choice((1, 2, 5, 10, 50))
        deny = rng.choice((Fraction(0), Fraction(1), Fraction(1, 2), Fraction(25), Fraction(50), Fraction(100),
                           Fraction(5, 4)))
        period = rng.choice((Q, 10 * Q, 180 * Q))
        t0 = rng.randrange(0, 3000)
        t = t0
        ops = []
        p_thr = rng.choice((0.0, 0.01, 0.02, 0.3, 0.5, 1.0))
        for _i in range(rng.randrange(1, 6)):
            for _j in range(rng.choice((sample - 1, sample, sample + 1, 2 * sample, 100))):
                ops.append(('t',) if rng.random() < p_thr else ('n',))
            t += rng.choice((0, 1, period - 1, period, period + 1, 2 * period))
            ops.append(('a', t))
            if rng.random() < 0.5:
                t += rng.choice((0, 1, period + 1))
                ops.append(('a', t))
        yield throttle_case(period, sample, deny, t0, ops)
    # exact thresholds: k throttled of n with pct == deny, one above, one below
    for (sample, deny, thr, tot) in ((50, 1, 1, 100), (50, 1, 2, 100), (50, 1, 1, 99), (10, 50, 5, 10), (10, 50, 6, 11),
                                    (50, 1, 0, 50), (50, 1, 1, 50), (50, 1, 1, 49), (1, 0, 0, 1), (1, 0, 1, 1),
                                    (50, 1, 3, 200), (50, 1, 201, 20000)):
        ops = [('t',)] * thr + [('n',)] * (tot - thr) + [('a', 10)]
        yield throttle_case(180 * Q, sample, Fraction(deny), 0, ops)
    from corr import c18s
    yield from c18s.generate(rng, tier)


def replay(inp):
    if inp['op'] == 'session-gate':
        from corr import c18s
        return c18s.cases_of(dict(inp['scenario']))[0]
    if inp['op'] == 'bucket':
        return bucket_case(Fraction(inp['rate']), inp['t0'], inp['arrivals'], inp['sleeps'])
    return throttle_case(inp['period'], Fraction(inp['sample']), Fraction(inp['deny']), inp['t0'],
                         [tuple(o) for o in inp['ops']])


def classify(case):
    inp = case.inp
    if inp.get('op') == 'bucket' and Fraction(inp['rate']) < 1 and case.fail and 'did not return' in case.fail:
        return 'limiter-rate-below-one'
    return None
