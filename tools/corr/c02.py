"""C02 — delivery receipts attributed to the message they report on: tier 2 correspondence
through the real ESME._handle_response / _handle_request and the attribution predicate."""
from vlib import Case
from corr.corrlib import CorrSim, Q, tok

ID = 'C02'
TARGETS = ['SmppVerif.Props.C02']
THOROUGH_ROUNDS = 6
RULE = ('histories: plain and segmented (2..5) submits accepted under SMSC message ids, then receipts in any order '
        '(relative to each other and to the remaining submit responses) with error codes 0 / >0, id in the text or in '
        'receipted_message_id, duplicate and unknown ids, ids in mixed letter case and ids of different messages differing in '
        'letter case only; one model line per operation plus dumps. '
        'distinct-nontrivial = distinct (message shapes, any failing receipt?, receipts-before-last-response?, id '
        'conveyed by TLV?, duplicates?, unknown ids?)')
TRUSTED = ['Lean 4.33.0 kernel', 'axioms: propext, Quot.sound, Classical.choice',
           'tools/corr/corrlib.py (recording hook, virtual clock); atomic-handler view of tier 2']
ASSUMPTIONS = ['each handler run is atomic; receipt text parsing itself is C20, PDU decoding C03/C04',
               'segmentation references are unique among live messages (reference reuse is the known finding of C01)']
EXHAUSTIVE = {'quick': False, 'thorough': False}


def history(rng, msgs, via_tlv, dup, unknown, label='mix', persist=False):
    """msgs: list of dict(log, nseg, ref, errs[list per segment])  -- all segments accepted
    persist: the correlator keeps its stores in a directory and the client is restarted (a new correlator instance on the
    same directory takes over) at random points of the history - which must make no difference"""
    import tempfile
    import shutil
    pdir = tempfile.mkdtemp(prefix='c02-') if persist else ''
    sim = CorrSim(ttl_resp_q=15 * Q, ttl_deliv_q=10 ** 7, directory=pdir)
    cases = [Case(sim.first_line, 'ok', None)]
    fail = None
    try:
        seqno = 0
        ops = []
        ids = {}
        collide = len(msgs) > 1 and rng.random() < 0.35
        style = [rng.randrange(4) for _ in msgs]
        for mi, m in enumerate(msgs):
            for si in range(m['nseg']):
                seqno += 1
                ops.append(('put', mi, si, seqno))
                # SMSC message ids are opaque strings: mixed letter case, and (collide) ids of different messages that
                # differ in letter case only
                num = (1000 + mi // 2) if collide else m['log']
                ids[(mi, si)] = (('M%dS%d', 'Ab%dCd%d', 'aB%dcD%d', 'm%ds%d')[(mi % 2 + 1) if collide else style[mi]]) % (num, si)
        resp_ops = []
        rcpt_ops = []
        sq = 0
        for mi, m in enumerate(msgs):
            for si in range(m['nseg']):
                sq += 1
                resp_ops.append(('resp', mi, si, sq))
                rcpt_ops.append(('rcpt', mi, si, sq))
        # responses in random order; each receipt somewhere after its own response
        rng.shuffle(resp_ops)
        seq_ops = list(resp_ops)
        for r in rcpt_ops:
            pos = next(i for i, o in enumerate(seq_ops) if o[0] == 'resp' and o[1:3] == r[1:3])
            seq_ops.insert(rng.randrange(pos + 1, len(seq_ops) + 1), r)
        if dup and rcpt_ops:
            seq_ops.append(rng.choice(rcpt_ops))
        if unknown:
            seq_ops.insert(rng.randrange(len(seq_ops) + 1), ('unknown',))
        early = False
        seen_resp = set()
        for o in seq_ops:
            if o[0] == 'resp':
                seen_resp.add(o[1:3])
            elif o[0] == 'rcpt':
                mi = o[1]
                if any((mi, sj) not in seen_resp for sj in range(msgs[mi]['nseg'])):
                    early = True
        ops += seq_ops
        t = 100
        seen = {}           # log -> list of (op index, err reported)
        rc_at = {}
        deliver_seq = 9000
        for oi, o in enumerate(ops):
            t += 1
            if o[0] == 'put':
                _, mi, si, sq = o
                m = msgs[mi]
                sar = (m['ref'], si + 1, m['nseg']) if m['nseg'] > 1 else None
                ln, out = sim.op_put(t, sim.submit(sq, m['log'], 1000 + m['log'], sar=sar))
            elif o[0] == 'resp':
                _, mi, si, sq = o
                ln, out, _ = sim.op_hresp(t, sim.resp('submitresp', sq, 0, ids[(mi, si)]))
            elif o[0] == 'unknown':
                deliver_seq += 1
                ln, out, res = sim.op_hdel(t, sim.deliver(deliver_seq, 'x', receipt=('nobody', 0)))
                if fail is None and (res is None or getattr(res, 'log_id', '') != ''):
                    fail = 'receipt for an unknown id handed over as %r' % (getattr(res, 'log_id', None),)
            else:
                _, mi, si, sq = o
                deliver_seq += 1
                err = msgs[mi]['errs'][si]
                if via_tlv:
                    d = sim.deliver(deliver_seq, 'x', receipt=('', err), tlv_id=ids[(mi, si)])
                else:
                    d = sim.deliver(deliver_seq, 'x', receipt=(ids[(mi, si)], err))
                ln, out, res = sim.op_hdel(t, d)
                rc_at.setdefault(mi, []).append(oi)
                if res is not None and res is not sim.em._SUBMIT_SM_SEGMENT and getattr(res, 'log_id', ''):
                    lg = int(res.log_id[1:])
                    e = res.parse_receipt().get('err', None)
                    seen.setdefault(lg, []).append((oi, e, getattr(res, 'extra_data', '')))
            cases.append(Case(ln, out, None))
            if persist and o[0] != 'put' and rng.random() < 0.25:
                sim.reload()
        ln, out = sim.op_dump()
        if not dup:
            for mi, m in enumerate(msgs):
                got = seen.get(m['log'], [])
                if fail is not None:
                    break
                if len(got) != 1:
                    fail = 'message L%d (%d segments): %d receipts reached the hook with its log_id' % (
                        m['log'], m['nseg'], len(got))
                elif got[0][2] != 'L%d' % (1000 + m['log']):
                    fail = 'message L%d: receipt carries extra_data %r' % (m['log'], got[0][2])
                elif got[0][0] != max(rc_at[mi]):
                    fail = 'message L%d: receipt handed over at op %d, not at its last segment receipt (op %d)' % (
                        m['log'], got[0][0], max(rc_at[mi]))
                elif (got[0][1] not in (0, None)) != any(e for e in m['errs']):
                    fail = 'message L%d (receipt errors %s): reported err %r' % (m['log'], m['errs'], got[0][1])
        for lg in seen:
            if lg not in {m['log'] for m in msgs} and fail is None:
                fail = 'a receipt carries log_id L%d which no message has' % lg
        sig = (label, tuple(sorted(m['nseg'] for m in msgs))[:3], any(any(m['errs']) for m in msgs), early, via_tlv,
               dup, unknown, collide, persist)
        cases.append(Case(ln, out, sig, fail, {'op': 'history', 'label': label, 'lines': [c.line for c in cases[1:]]}))
    finally:
        sim.close()
        if pdir:
            shutil.rmtree(pdir, ignore_errors=True)
    return cases


def id_shapes_history(rng, kind):
    """unsegmented messages accepted under ids of particular shapes, then receipts (some twice, some for unknown ids):
    kind 'numeric-hex'  ids that are the decimal and the hexadecimal notation of one number ('10' and 'A', '255' and 'FF'),
         'echo'         receipts spelling the last field 'Text:' (SMPP appendix B) whose echoed text contains 'id:<other id>',
         'prefix'       ids one of which is a prefix / zero-padded form of another ('7', '07', '007', '70')"""
    sim = CorrSim(ttl_resp_q=15 * Q, ttl_deliv_q=10 ** 7)
    cases = [Case(sim.first_line, 'ok', None)]
    fail = None
    try:
        if kind == 'numeric-hex':
            n = rng.choice((10, 11, 15, 171, 255, 4096 + rng.randrange(4096)))
            ids = [str(n), '%X' % n, '%x' % (n + 1), str(n + 1)]
        elif kind == 'prefix':
            ids = ['7', '07', '007', '70']
        else:
            ids = ['41', '7788', 'abc', 'ZZ9']
        rng.shuffle(ids)
        ids = ids[:rng.randrange(2, 5)]
        t = 100
        for i, mid in enumerate(ids):
            t += 1
            ln, out = sim.op_put(t, sim.submit(i + 1, 60 + i, 1060 + i))
            cases.append(Case(ln, out, None))
            t += 1
            ln, out, _ = sim.op_hresp(t, sim.resp('submitresp', i + 1, 0, mid))
            cases.append(Case(ln, out, None))
        order = list(range(len(ids)))
        rng.shuffle(order)
        plan = []
        for i in order:
            plan.append(('rcpt', i))
            if rng.random() < 0.5:
                plan.append(('rcpt', i))            # the same receipt again: must not find anything
        plan.insert(rng.randrange(len(plan) + 1), ('unknown', None))
        got = {}
        dseq = 9000
        done = set()
        for what, i in plan:
            t += 1
            dseq += 1
            if what == 'unknown':
                d = sim.deliver(dseq, 'x', receipt=('nosuch%d' % dseq, 0))
                want_log = ''
            else:
                other = ids[(i + 1) % len(ids)]
                if kind == 'echo':
                    d = sim.deliver(dseq, 'Order id:%s shipped id:%s' % (other, other), receipt=(ids[i], 0), text_name='Text')
                else:
                    d = sim.deliver(dseq, 'x', receipt=(ids[i], 0), text_name=rng.choice(('text', 'Text')))
                want_log = '' if i in done else 'L%d' % (60 + i)
                done.add(i)
            ln, out, res = sim.op_hdel(t, d)
            cases.append(Case(ln, out, None))
            have = getattr(res, 'log_id', '') if res is not None and res is not sim.em._SUBMIT_SM_SEGMENT else None
            if fail is None and have != want_log:
                fail = 'receipt naming id %r handed over with log_id %r, expected %r (ids in play: %s)' % (
                    ids[i] if i is not None else 'nosuch', have, want_log, ids)
        ln, out = sim.op_dump()
        cases.append(Case(ln, out, ('id-shapes', kind, len(ids)), fail, {'op': 'history', 'label': 'ids-' + kind, 'lines': [c.line for c in cases[1:]]}))
    finally:
        sim.close()
    return cases


def tracking_history(rng):
    """applications track by log_id, by extra_data, by both or by neither: the receipt for a message carries exactly the
    log_id AND the extra_data the message was submitted with (each on its own, the empty value included)"""
    sim = CorrSim(ttl_resp_q=15 * Q, ttl_deliv_q=10 ** 7)
    cases = [Case(sim.first_line, 'ok', None)]
    fail = None
    try:
        shapes = [(0, 1070), (71, 0), (72, 1072), (0, 0), (0, 1074)]
        rng.shuffle(shapes)
        shapes = shapes[:rng.randrange(2, 6)]
        t = 100
        for i, (lg, ex) in enumerate(shapes):
            t += 1
            ln, out = sim.op_put(t, sim.submit(i + 1, lg, ex))
            cases.append(Case(ln, out, None))
            t += 1
            ln, out, _ = sim.op_hresp(t, sim.resp('submitresp', i + 1, 0, 'id%d' % i))
            cases.append(Case(ln, out, None))
        order = list(range(len(shapes)))
        rng.shuffle(order)
        dseq = 9100
        for i in order:
            t += 1
            dseq += 1
            if rng.random() < 0.4:
                d = sim.deliver(dseq, 'x', receipt=('', 0), tlv_id='id%d' % i)
            else:
                d = sim.deliver(dseq, 'x', receipt=('id%d' % i, 0))
            ln, out, res = sim.op_hdel(t, d)
            cases.append(Case(ln, out, None))
            lg, ex = shapes[i]
            have = (getattr(res, 'log_id', None), getattr(res, 'extra_data', None))
            if fail is None and have != (tok(lg), tok(ex)):
                fail = 'receipt for the message submitted with log_id %r / extra_data %r handed over with %r / %r' % (
                    tok(lg), tok(ex), have[0], have[1])
        ln, out = sim.op_dump()
        cases.append(Case(ln, out, ('tracking', tuple(sorted((bool(a), bool(b)) for a, b in shapes))), fail,
                          {'op': 'history', 'label': 'tracking', 'lines': [c.line for c in cases[1:]]}))
    finally:
        sim.close()
    return cases


def reuse_after_end_history(rng):
    """the 8-bit segmentation reference comes round again AFTER the earlier message with it has ended (a segment rejected,
    or all segments timed out): nothing of the old message may be left to meet the new one - the new message, accepted in
    full, gets exactly one receipt with its own identity once all its segments are receipted"""
    sim = CorrSim(ttl_resp_q=15 * Q, ttl_deliv_q=10 ** 7)
    cases = [Case(sim.first_line, 'ok', None)]
    fail = None
    try:
        ref = rng.randrange(256)
        na = rng.choice((3, 4))
        nb = rng.choice((2, na - 1, na))
        how = rng.choice(('rejected', 'rejected', 'expired'))
        t = 100
        # message A: its segments, then the answers - one of them a refusal; or no answers at all until they expire
        for i in range(1, na + 1):
            t += 1
            ln, out = sim.op_put(t, sim.submit(i, 31, 1031, sar=(ref, i, na)))
            cases.append(Case(ln, out, None))
        if how == 'rejected':
            bad = rng.randrange(1, na + 1)
            for i in rng.sample(range(1, na + 1), na):
                t += 1
                ln, out, _ = sim.op_hresp(t, sim.resp('submitresp', i, 8 if i == bad else 0, '' if i == bad else 'a%d' % i))
                cases.append(Case(ln, out, None))
        else:
            t += 16 * Q
            ln, out = sim.op_put(t, sim.request('enq', 5000))       # the sweep reports A as timed out
            cases.append(Case(ln, out, None))
        # message B under the same reference, accepted in full, then its receipts in some order
        for i in range(1, nb + 1):
            t += 1
            ln, out = sim.op_put(t, sim.submit(100 + i, 32, 1032, sar=(ref, i, nb)))
            cases.append(Case(ln, out, None))
        for i in rng.sample(range(1, nb + 1), nb):
            t += 1
            ln, out, _ = sim.op_hresp(t, sim.resp('submitresp', 100 + i, 0, 'b%d' % i))
            cases.append(Case(ln, out, None))
        got = []
        order = rng.sample(range(1, nb + 1), nb)
        for k, i in enumerate(order):
            t += 1
            ln, out, res = sim.op_hdel(t, sim.deliver(9400 + k, 'x', receipt=('b%d' % i, 0)))
            cases.append(Case(ln, out, None))
            if res is not None and res is not sim.em._SUBMIT_SM_SEGMENT:
                got.append((k, getattr(res, 'log_id', ''), getattr(res, 'extra_data', '')))
        if [g[1:] for g in got] != [('L32', 'L1032')] or got[0][0] != nb - 1:
            fail = ('message B (%d segments, reference %d, reused after message A with %d segments had ended %s): receipts handed '
                    'to the hook: %s, expected exactly one, at the last receipt, with log_id L32 / extra_data L1032' % (nb, ref, na, how, got))
        ln, out = sim.op_dump()
        cases.append(Case(ln, out, ('reuse-after-end', how, na, nb), fail,
                          {'op': 'history', 'label': 'reuse-after-end', 'lines': [c.line for c in cases[1:]]}))
    finally:
        sim.close()
    return cases


def generate(rng, tier):
    thorough = tier == 'thorough'
    for _ in range(60 if thorough else 16):
        yield from reuse_after_end_history(rng)
    for _ in range(40 if thorough else 12):
        yield from tracking_history(rng)
    for _ in range(120 if thorough else 40):
        yield from id_shapes_history(rng, rng.choice(('numeric-hex', 'numeric-hex', 'echo', 'prefix')))
    for _ in range(1200 if thorough else 350):
        n = rng.randrange(1, 4)
        refs = rng.sample(range(256), n)
        msgs = []
        for i in range(n):
            nseg = rng.choice((1, 1, 2, 3, 5))
            p = rng.choice((0.0, 0.0, 0.4))
            msgs.append(dict(log=20 + i, nseg=nseg, ref=refs[i],
                             errs=[rng.choice((1, 7, 255)) if rng.random() < p else 0 for _ in range(nseg)]))
        yield from history(rng, msgs, via_tlv=rng.random() < 0.3, dup=rng.random() < 0.15, unknown=rng.random() < 0.3,
                           persist=rng.random() < 0.2)
    for nseg in (2, 3):
        for pos in range(nseg):
            errs = [0] * nseg
            errs[pos] = 9
            for _ in range(4):
                yield from history(rng, [dict(log=50, nseg=nseg, ref=3, errs=list(errs))], False, False, False, 'directed')
    yield from _session_receipts(rng, tier)


def _session_receipts(rng, tier):
    # session level: the real ESME.start() with a scripted SMSC that accepts messages and sends delivery receipts (prompt,
    # delayed, with an error code, id in the TLV only, right after the response and before the sibling segment's response,
    # unknown ids, duplicates); no model line, judged by the attribution predicate
    from corr import c01s
    yield from c01s.generate_receipts(rng, 300 if tier == 'thorough' else 80)


def replay(inp):
    if inp.get('op') == 'session-receipts':
        from corr import c01s
        return c01s.receipt_case(dict(inp['sc']))
    return Case('\n'.join(['c.new 15360 10000000'] + inp.get('lines', [])), '', None, None, inp)


def classify(case):
    return None
