#!/usr/bin/env python3
"""tools/mkdesign.py: regenerate the listed parts of DESIGN.md section 0 from the committed data
(known_findings.json, seeded/*/meta.json, `git log` of /repo): 0.5 commit list and fixed entries, 0.6 findings,
0.8 seeded-change table.  Prose around them is kept."""
import json, os, re, subprocess
V = os.path.dirname(os.path.dirname(os.path.abspath(__file__)))
p = os.path.join(V, 'DESIGN.md')
s = open(p).read()
kf = json.load(open(os.path.join(V, 'known_findings.json')))

# 0.5 commit list
log = subprocess.run(['git', '-C', '/repo', 'log', '--format=%h %s'], capture_output=True, text=True).stdout.splitlines()
fixes = [l for l in log if l.split(' ', 1)[1].startswith('fix:')]
s = re.sub(r'(### 0\.5 [^\n]*\n\n```\n).*?(```\n)', lambda m: m.group(1) + '\n'.join(fixes) + '\n' + m.group(2), s, count=1, flags=re.S)
# 0.5 fixed entries
rows = []
for e in kf:
    if e['kind'] == 'fixed':
        what = e['what'].split(' ', 3)[3] if e['what'].startswith('fixed: property=') else e['what']
        rows.append('* `%s` (%s, %s) — %s' % (e['commit'], e['property'], e['id'], what))
s = re.sub(r"(Recorded in `known_findings\.json` as `fixed` entries \(they suppress nothing\):\n\n).*?(\n\nFurther repairs)",
           lambda m: m.group(1) + '\n'.join(rows) + m.group(2), s, count=1, flags=re.S)
# 0.6 findings
rows = ['* **%s** (%s) — %s' % (e['id'], e['property'], e['what']) for e in kf if e['kind'] != 'fixed']
s = re.sub(r'(### 0\.6 [^\n]*\n\n).*?(\n\nEach is re-demonstrated)', lambda m: m.group(1) + '\n'.join(rows) + m.group(2), s, count=1, flags=re.S)
# 0.8 table
metas = []
for d in sorted(os.listdir(os.path.join(V, 'seeded'))):
    f = os.path.join(V, 'seeded', d, 'meta.json')
    if os.path.exists(f):
        metas.append(json.load(open(f)))
rows = ['| %s | `%s` | %s |' % (m['property'], m['seed_id'], m['detected_by'].replace('|', '/')) for m in metas]
s = re.sub(r'(\| property \| seeded change \| detected by \|\n\|---\|---\|---\|\n).*?(\n\n-{20,})', lambda m: m.group(1) + '\n'.join(rows) + m.group(2), s, count=1, flags=re.S)
s = re.sub(r'### 0\.8 Seeded changes \(\d+ kept', '### 0.8 Seeded changes (%d kept' % len(metas), s)
s = re.sub(r'All \d+ are detected by the', 'All %d are detected by the' % len(metas), s)
open(p, 'w').write(s)
print('DESIGN.md: %d fix commits, %d findings-file entries, %d seeded changes' % (len(fixes), len(kf), len(metas)))
