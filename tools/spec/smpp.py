"""Independent SMPP 3.4 encoder (written from the specification's field tables, not from the
library): used to feed the decoder shapes the library never emits and as the wire oracle."""
import struct


def cstr(s):
    return s.encode('ascii') + b'\x00'


def header(length, command_id, status, seq):
    return struct.pack('!IIII', length, command_id, status, seq)


def tlv(tag, value):
    return struct.pack('!HH', tag, len(value)) + value


def sm_body(service_type='', src=(0, 0, ''), dst=(0, 0, ''), esm_class=0, protocol_id=0, priority=0,
            schedule='', validity='', registered=0, replace=0, data_coding=0, default_msg_id=0,
            short_message=b'', tlvs=()):
    """mandatory part of submit_sm / deliver_sm (SMPP 3.4 section 4.4.1 / 4.6.1) + TLVs in the given order"""
    b = cstr(service_type)
    b += struct.pack('!BB', src[0], src[1]) + cstr(src[2])
    b += struct.pack('!BB', dst[0], dst[1]) + cstr(dst[2])
    b += struct.pack('!BBB', esm_class, protocol_id, priority)
    b += cstr(schedule) + cstr(validity)
    b += struct.pack('!BBBBB', registered, replace, data_coding, default_msg_id, len(short_message))
    b += short_message
    for t, v in tlvs:
        b += tlv(t, v)
    return b


def pdu(command_id, status, seq, body=b''):
    return header(16 + len(body), command_id, status, seq) + body


DELIVER_SM = 0x00000005
SUBMIT_SM = 0x00000004
TAG_SAR_REF, TAG_SAR_TOTAL, TAG_SAR_SEQ, TAG_PAYLOAD, TAG_RECEIPTED_ID = 0x020C, 0x020E, 0x020F, 0x0424, 0x001E


def udh_concat(ref, total, seq, wide=False):
    if wide:
        return bytes([6, 0x08, 4, (ref >> 8) & 0xFF, ref & 0xFF, total, seq])
    return bytes([5, 0x00, 3, ref & 0xFF, total, seq])
