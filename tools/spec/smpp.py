"""Independent SMPP 3.4 encoder (written from the specification's field tables, not from the
library): used to feed the decoder shapes the library never emits and as the wire oracle."""
import struct


def cstr(s):
    return s.encode('ascii') + b'\x00'


def header(length, command_id, status, seq):
    return struct.pack('!IIII', length, command_id, status, seq)


def tlv(tag, value):
    return struct.pack('!HH', tag, len(value)) + value


def sm_body(service_type='', src=(0, 0, ''), dst=(0, 0, ''), esm_class=0, protocol_id=0, priority=0,
            schedule='', validity='', registered=0, replace=0, data_coding=0, default_msg_id=0,
            short_message=b'', tlvs=()):
    """mandatory part of submit_sm / deliver_sm (SMPP 3.4 section 4.4.1 / 4.6.1) + TLVs in the given order"""
    b = cstr(service_type)
    b += struct.pack('!BB', src[0], src[1]) + cstr(src[2])
    b += struct.pack('!BB', dst[0], dst[1]) + cstr(dst[2])
    b += struct.pack('!BBB', esm_class, protocol_id, priority)
    b += cstr(schedule) + cstr(validity)
    b += struct.pack('!BBBBB', registered, replace, data_coding, default_msg_id, len(short_message))
    b += short_message
    for t, v in tlvs:
        b += tlv(t, v)
    return b


def pdu(command_id, status, seq, body=b''):
    return header(16 + len(body), command_id, status, seq) + body


DELIVER_SM = 0x00000005
SUBMIT_SM = 0x00000004
TAG_SAR_REF, TAG_SAR_TOTAL, TAG_SAR_SEQ, TAG_PAYLOAD, TAG_RECEIPTED_ID = 0x020C, 0x020E, 0x020F, 0x0424, 0x001E


def udh_concat(ref, total, seq, wide=False):
    if wide:
        return bytes([6, 0x08, 4, (ref >> 8) & 0xFF, ref & 0xFF, total, seq])
    return bytes([5, 0x00, 3, ref & 0xFF, total, seq])


# --- SMPP 3.4 section 5.3.2: optional parameter kinds (hand-transcribed) -----------------------
TLV_KINDS = {
    0x0005: ('int', 1), 0x0006: ('int', 1), 0x0007: ('int', 1), 0x0008: ('int', 2), 0x000D: ('int', 1),
    0x000E: ('int', 1), 0x000F: ('int', 1), 0x0010: ('int', 1), 0x0017: ('int', 4), 0x0019: ('int', 1),
    0x001D: ('cstr', 0), 0x001E: ('cstr', 0), 0x0030: ('int', 1), 0x0201: ('int', 1), 0x0202: ('octets', 0),
    0x0203: ('octets', 0), 0x0204: ('int', 2), 0x0205: ('int', 1), 0x020A: ('int', 2), 0x020B: ('int', 2),
    0x020C: ('int', 2), 0x020D: ('int', 1), 0x020E: ('int', 1), 0x020F: ('int', 1), 0x0210: ('int', 1),
    0x0302: ('int', 1), 0x0303: ('octets', 0), 0x0304: ('int', 1), 0x0381: ('octets', 0), 0x0420: ('int', 1),
    0x0421: ('int', 1), 0x0422: ('int', 1), 0x0423: ('octets', 0), 0x0424: ('octets', 0), 0x0425: ('int', 1),
    0x0426: ('int', 1), 0x0427: ('int', 1), 0x0501: ('octets', 0), 0x1201: ('int', 1), 0x1203: ('int', 2),
    0x1204: ('int', 1), 0x130C: ('flag', 0), 0x1380: ('int', 1), 0x1383: ('octets', 0),
}


def tlv_kind(tag):
    return TLV_KINDS.get(tag, ('octets', 0))


def tlv_value(tag, value):
    """wire value of an optional parameter from its logical value (int / str / True)"""
    kind, width = tlv_kind(tag)
    if kind == 'int':
        return int(value).to_bytes(width, 'big')
    if kind == 'cstr':
        return value.encode('ascii') + b'\x00'
    if kind == 'flag':
        return b''
    return value.encode('ascii')


def time_str(t):
    """SMPP 3.4 section 7.1.1 from a datetime (naive = UTC) / timedelta / None"""
    from datetime import datetime
    if t is None:
        return ''
    if isinstance(t, datetime):
        off = t.utcoffset()
        secs = 0 if off is None else off.days * 86400 + off.seconds
        return '%02d%02d%02d%02d%02d%02d%d%02d%s' % (t.year % 100, t.month, t.day, t.hour, t.minute, t.second,
                                                      t.microsecond // 100000, abs(secs) // 900, '-' if secs < 0 else '+')
    days, secs = t.days, t.seconds
    return '%02d%02d%02d%02d%02d%02d000R' % (days // 365, days % 365 // 30, days % 365 % 30, secs // 3600,
                                             secs % 3600 // 60, secs % 60)


COMMAND_IDS = {'SubmitSm': 0x04, 'DeliverSm': 0x05, 'SubmitSmResp': 0x80000004, 'DeliverSmResp': 0x80000005,
               'GenericNack': 0x80000000, 'BindReceiver': 0x01, 'BindTransmitter': 0x02, 'BindTransceiver': 0x09,
               'BindReceiverResp': 0x80000001, 'BindTransmitterResp': 0x80000002, 'BindTransceiverResp': 0x80000009,
               'EnquireLink': 0x15, 'EnquireLinkResp': 0x80000015, 'Unbind': 0x06, 'UnbindResp': 0x80000006}
DATA_CODING = {'gsm0338': 0, 'gsm0338_packed': 0, 'ascii': 1, 'latin_1': 3, 'ucs2': 8}


def text_bytes(text, alphabet):
    """octets of a text under a data coding, by codecs that are not the library's"""
    from spec import gsm as gspec
    if alphabet == 'gsm0338':
        return gspec.encode(text)
    if alphabet == 'gsm0338_packed':
        septets = gspec.encode(text)
        if septets is None:
            return None
        v = 0
        for i, s in enumerate(septets):
            v |= s << (7 * i)
        return v.to_bytes((7 * len(septets) + 7) // 8, 'little')
    try:
        return text.encode({'ucs2': 'utf-16-be', 'ascii': 'ascii', 'latin_1': 'latin-1'}[alphabet])
    except UnicodeEncodeError:
        return None
