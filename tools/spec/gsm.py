"""3GPP TS 23.038 default alphabet and extension table, independent Python rendering used by
the failing-input search (the *oracle*).  Written from the standard's code chart, not from the
repository and not from the Lean model."""

EXC = {
    0x00: 0x40, 0x01: 0xA3, 0x02: 0x24, 0x03: 0xA5, 0x04: 0xE8, 0x05: 0xE9, 0x06: 0xF9, 0x07: 0xEC,
    0x08: 0xF2, 0x09: 0xC7, 0x0B: 0xD8, 0x0C: 0xF8, 0x0E: 0xC5, 0x0F: 0xE5,
    0x10: 0x394, 0x11: 0x5F, 0x12: 0x3A6, 0x13: 0x393, 0x14: 0x39B, 0x15: 0x3A9, 0x16: 0x3A0,
    0x17: 0x3A8, 0x18: 0x3A3, 0x19: 0x398, 0x1A: 0x39E, 0x1C: 0xC6, 0x1D: 0xE6, 0x1E: 0xDF,
    0x1F: 0xC9, 0x24: 0xA4, 0x40: 0xA1, 0x5B: 0xC4, 0x5C: 0xD6, 0x5D: 0xD1, 0x5E: 0xDC, 0x5F: 0xA7,
    0x60: 0xBF, 0x7B: 0xE4, 0x7C: 0xF6, 0x7D: 0xF1, 0x7E: 0xFC, 0x7F: 0xE0,
}
ESC = 0x1B
BASIC = {k: chr(EXC.get(k, k)) for k in range(128) if k != ESC}          # septet -> char
EXT = {0x0A: '\x0c', 0x14: '^', 0x28: '{', 0x29: '}', 0x2F: '\\', 0x3C: '[', 0x3D: '~',
       0x3E: ']', 0x40: '|', 0x65: '€'}
BASIC_ENC = {v: k for k, v in BASIC.items()}
EXT_ENC = {v: k for k, v in EXT.items()}
ALPHABET = set(BASIC_ENC) | set(EXT_ENC)
assert len(BASIC_ENC) == 127 and len(ALPHABET) == 137


def enc_char(ch):
    if ch in BASIC_ENC:
        return bytes([BASIC_ENC[ch]])
    if ch in EXT_ENC:
        return bytes([ESC, EXT_ENC[ch]])
    return None


def encode(text):
    """septets (one per octet) of a text over the alphabet, or None"""
    out = bytearray()
    for ch in text:
        e = enc_char(ch)
        if e is None:
            return None
        out += e
    return bytes(out)


def septet_cost(text):
    return sum(1 if ch in BASIC_ENC else 2 for ch in text)


def decode(septets):
    """independent strict decoder of unpacked septets (None when not decodable)"""
    out = []
    i = 0
    n = len(septets)
    while i < n:
        b = septets[i]
        if b == ESC:
            if i + 1 >= n or septets[i + 1] not in EXT:
                return None
            out.append(EXT[septets[i + 1]])
            i += 2
        elif b in BASIC:
            out.append(BASIC[b])
            i += 1
        else:
            return None
    return ''.join(out)
