#!/bin/bash
# tools/tryseed.sh <patch.diff> <PROP> [tier]: apply a seeded change to /repo, run the property's check, undo the change.
# The evidence record of this run goes to a scratch directory, never to /verif/evidence.
set -u
patch=$(readlink -f "$1"); prop=$2; tier=${3:-quick}
cd "$(dirname "$0")/.."
git -C /repo apply "$patch" || { echo "patch does not apply"; exit 2; }
VERIF_EVIDENCE_DIR=/root/scratch/evidence-seeded ./check "$prop" --tier "$tier" 2>&1 | grep -v "^KNOWN\|^note" | tail -4 | cut -c1-400
git -C /repo checkout -- .
