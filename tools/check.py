"""Entry point: ./check <ID> [--tier ...] [--replay f] | ./check --setup"""
import importlib
import os
import sys

sys.path.insert(0, os.path.dirname(os.path.abspath(__file__)))
import vlib  # noqa: E402


def setup():
    lock = vlib.Lock()
    lock.ex()
    rc, log = vlib.run_extract()
    print(log.strip())
    if rc != 0:
        return 2
    rc, log = vlib.lake_build([])
    print(log[-3000:])
    return 0 if rc == 0 else 2


def main():
    if len(sys.argv) < 2:
        print(__doc__)
        return 2
    if sys.argv[1] == '--setup':
        return setup()
    pid = sys.argv[1].upper()
    try:
        area = importlib.import_module('corr.' + pid.lower())
    except ModuleNotFoundError as e:
        print('no check for %s: %s' % (pid, e))
        return 2
    return vlib.main_check(area, sys.argv[2:])


if __name__ == '__main__':
    sys.exit(main())
