#!/usr/bin/env python3
"""tools/seedpar.py [-j N] <dir>:<PROP>[:tier] ...

Confirms and checks seeded changes in parallel WITHOUT touching /repo or /verif's build:
each job gets a scratch worktree of /repo (patch applied there) and runs the property's check
from a private copy of /verif (its own .lake) with VERIF_REPO pointing at the worktree.
The registered way (apply to /repo, run ./check, undo) is tools/seedtest.sh; this is the same
check code run against a copy of the repository, used to triage many changes quickly.
Prints one summary line per job; full logs under /root/scratch/seedpar/<name>.log."""
import json, os, subprocess, sys, shutil, threading, queue

VERIF = os.path.dirname(os.path.dirname(os.path.abspath(__file__)))
BASE = '/root/scratch/seedpar'
PY = '/venv/bin/python'

def sh(cmd, **kw):
    return subprocess.run(cmd, shell=True, capture_output=True, text=True, **kw)

def prepare_slot(k):
    d = f'{BASE}/slot{k}'
    os.makedirs(d, exist_ok=True)
    sh(f"rsync -a --delete --exclude .git --exclude work --exclude replays {VERIF}/ {d}/")
    return d

def run_job(slot, spec):
    parts = spec.split(':')
    src, prop = os.path.abspath(parts[0]), parts[1]
    tier = parts[2] if len(parts) > 2 else 'quick'
    name = os.path.basename(os.path.dirname(src)) + '-' + os.path.basename(src) if os.path.basename(src).startswith('m') else os.path.basename(src)
    wt = f'/tmp/seedpar-wt-{os.getpid()}-{name}-{prop}'
    log = open(f'{BASE}/{name}.log', 'w')
    res = {'name': name, 'prop': prop}
    try:
        r = sh(f'git -C /repo worktree add -q --detach {wt} HEAD')
        if r.returncode:
            res['error'] = 'worktree: ' + r.stderr.strip(); return res
        demo = [f for f in os.listdir(src) if f.startswith('demo') and f.endswith('.py')]
        demo = os.path.join(src, demo[0]) if demo else None
        if demo:
            r = sh(f'cd {wt} && PYTHONPATH={wt} timeout 120 {PY} {demo}')
            res['demo_clean'] = r.returncode
        r = sh(f'git -C {wt} apply {src}/patch.diff')
        if r.returncode:
            res['error'] = 'patch does not apply: ' + r.stderr.strip()[:200]; return res
        r = sh(f'cd {wt} && PYTHONPATH={wt} {PY} -m pytest -q -p no:cacheprovider tests 2>&1 | tail -1')
        res['tests'] = r.stdout.strip()
        if demo:
            r = sh(f'cd {wt} && PYTHONPATH={wt} timeout 120 {PY} {demo}')
            res['demo_mut'] = r.returncode
        env = dict(os.environ, VERIF_REPO=wt)
        r = subprocess.run(f'cd {slot} && ./check {prop} --tier {tier}', shell=True, capture_output=True, text=True, env=env)
        log.write(r.stdout + '\n--- stderr\n' + r.stderr)
        res['check_exit'] = r.returncode
        lines = [l for l in r.stdout.splitlines() if l.startswith('VIOLATION') or l.startswith('KNOWN-FINDING')]
        res['lines'] = [l[:300] for l in lines[:4]]
        # keep the replay the violation names, for reading
        for l in lines:
            if 'replay=' in l:
                p = l.split('replay=')[1].split()[0]
                p = p if os.path.isabs(p) else os.path.join(slot, p)
                if os.path.exists(p):
                    shutil.copy(p, f'{BASE}/{name}.replay.json')
                break
    finally:
        sh(f'git -C /repo worktree remove --force {wt}')
        log.close()
    return res

def main():
    args = sys.argv[1:]
    n = 4
    if args and args[0] == '-j':
        n = int(args[1]); args = args[2:]
    os.makedirs(BASE, exist_ok=True)
    q = queue.Queue()
    for a in args:
        q.put(a)
    lock = threading.Lock()
    def worker(k):
        slot = prepare_slot(k)
        while True:
            try:
                spec = q.get_nowait()
            except queue.Empty:
                return
            try:
                res = run_job(slot, spec)
            except Exception as e:  # noqa
                res = {'spec': spec, 'error': repr(e)}
            with lock:
                print(json.dumps(res), flush=True)
    ts = [threading.Thread(target=worker, args=(k,)) for k in range(min(n, len(args)))]
    for t in ts: t.start()
    for t in ts: t.join()

if __name__ == '__main__':
    main()
