"""Common machinery of the checks (DESIGN.md §4).

A check = extract -> lake build (theorems, axioms) -> source audit -> correspondence
(model driver vs real code on the same op lines, plus the property's own predicate on the
real outputs) -> known findings -> decision -> evidence.
"""
import asyncio
import fcntl
import hashlib
import json
import os
import random
import re
import subprocess
import sys
import time
import traceback

VERIF = os.path.dirname(os.path.dirname(os.path.abspath(__file__)))
LEAN = os.path.join(VERIF, 'lean')
REPO = os.environ.get('VERIF_REPO', '/repo')
GUARD = 'NIKSABALDUN_AIOSMPPLIB_VERIF'
ALLOWED_AXIOMS = {'propext', 'Classical.choice', 'Quot.sound'}
FORBIDDEN = [r'\bsorry\b', r'\badmit\b', r'^\s*axiom\s', r'\bnative_decide\b', r'\bbv_decide\b',
             r'\bimplemented_by\b', r'\bunsafe\s', r'maxHeartbeats\s+0\b', r'\bextern\b']

os.environ[GUARD] = '1'
if REPO not in sys.path:
    sys.path.insert(0, REPO)


def module_tables():
    """a snapshot (repr) of every module-level UPPER_CASE dict / list / set / tuple of the aiosmpplib modules"""
    import importlib
    import pkgutil
    import aiosmpplib
    snap = {}
    for mi in pkgutil.iter_modules(aiosmpplib.__path__):
        try:
            mod = importlib.import_module('aiosmpplib.' + mi.name)
        except Exception:      # noqa
            continue
        for nm, val in vars(mod).items():
            if nm.isupper() and isinstance(val, (dict, list, set, tuple)) and getattr(val, '__module__', None) is None:
                try:
                    snap[mi.name + '.' + nm] = repr(sorted(val.items(), key=repr)) if isinstance(val, dict) else repr(val)
                except Exception:      # noqa
                    snap[mi.name + '.' + nm] = '<no repr>'
    return snap


class Case:
    """One correspondence case.

    line    model op line for the driver
    out     canonical output of the real code on the same input
    sig     branch signature (hashable) used for the coverage statistics
    fail    None, or a description of how the *property predicate* fails on the real output
    inp     JSON-able input (for the replay file)
    """
    __slots__ = ('line', 'out', 'sig', 'fail', 'inp')

    def __init__(self, line, out, sig=None, fail=None, inp=None):
        self.line = line
        self.out = out
        self.sig = sig
        self.fail = fail
        self.inp = inp if inp is not None else line


class Lock:
    def __init__(self):
        os.makedirs(os.path.join(VERIF, 'work'), exist_ok=True)
        self.f = open(os.path.join(VERIF, 'work', 'lock'), 'w')

    def ex(self):
        fcntl.flock(self.f, fcntl.LOCK_EX)

    def sh(self):
        fcntl.flock(self.f, fcntl.LOCK_SH)

    def un(self):
        fcntl.flock(self.f, fcntl.LOCK_UN)


def run_extract():
    p = subprocess.run(['/venv/bin/python', os.path.join(VERIF, 'tools', 'extract.py')],
                       capture_output=True, text=True, timeout=600,
                       env=dict(os.environ, VERIF_REPO=REPO))
    return p.returncode, p.stdout + p.stderr


def lake_build(targets, timeout=3000):
    p = subprocess.run(['lake', 'build'] + list(targets), cwd=LEAN, capture_output=True,
                       text=True, timeout=timeout)
    return p.returncode, p.stdout + p.stderr


AX_RE = re.compile(r"'([^']+)' depends on axioms: \[([^\]]*)\]")
AX0_RE = re.compile(r"'([^']+)' does not depend on any axioms")
ERR_RE = re.compile(r"^error: (\S+?\.lean):(\d+):(\d+): (.*)$", re.M)


def parse_axioms(log):
    res = {}
    for m in AX_RE.finditer(log.replace('\n ', ' ')):
        res[m.group(1)] = [a.strip() for a in m.group(2).split(',') if a.strip()]
    for m in AX0_RE.finditer(log):
        res[m.group(1)] = []
    return res


def enclosing_decl(path, line):
    """name of the theorem/def/example enclosing a source line (for the replay file)"""
    try:
        with open(os.path.join(LEAN, path), encoding='utf-8') as f:
            lines = f.readlines()
    except OSError:
        return '%s:%d' % (path, line)
    for i in range(min(line, len(lines)) - 1, -1, -1):
        m = re.match(r'\s*(?:private\s+)?(theorem|lemma|def|example|instance|abbrev)\s*([^\s:(\[{]*)', lines[i])
        if m:
            return '%s %s (%s:%d)' % (m.group(1), m.group(2) or '<anonymous>', path, i + 1)
    return '%s:%d' % (path, line)


def strip_comments(src):
    # remove /- ... -/ (nested) and -- comments; string literals are left alone (none contain markers)
    out = []
    i, depth = 0, 0
    n = len(src)
    while i < n:
        if src.startswith('/-', i):
            depth += 1
            i += 2
        elif depth and src.startswith('-/', i):
            depth -= 1
            i += 2
        elif depth:
            if src[i] == '\n':
                out.append('\n')
            i += 1
        elif src.startswith('--', i):
            while i < n and src[i] != '\n':
                i += 1
        else:
            out.append(src[i])
            i += 1
    return ''.join(out)


def audit_sources():
    hits = []
    files = []
    for root, _dirs, names in os.walk(LEAN):
        if '.lake' in root:
            continue
        for nm in names:
            if nm.endswith('.lean'):
                files.append(os.path.join(root, nm))
    for path in sorted(files):
        with open(path, encoding='utf-8') as f:
            code = strip_comments(f.read())
        for no, ln in enumerate(code.split('\n'), 1):
            for pat in FORBIDDEN:
                if re.search(pat, ln):
                    hits.append('%s:%d: %s' % (os.path.relpath(path, LEAN), no, ln.strip()[:120]))
    return hits, len(files)


def run_driver(lines, timeout=3000):
    """pipe op lines through the Lean driver, return list of output lines"""
    work = os.path.join(VERIF, 'work')
    os.makedirs(work, exist_ok=True)
    inp = os.path.join(work, 'ops-%d.txt' % os.getpid())
    with open(inp, 'w', encoding='ascii') as f:
        for ln in lines:
            f.write(ln)
            f.write('\n')
    try:
        with open(inp, 'rb') as fin:
            p = subprocess.run(['lake', 'env', 'lean', '--run', 'Driver.lean'], cwd=LEAN, stdin=fin,
                               capture_output=True, timeout=timeout)
    finally:
        try:
            os.unlink(inp)
        except OSError:
            pass
    out = p.stdout.decode('utf-8', 'replace').split('\n')
    if out and out[-1] == '':
        out.pop()
    return p.returncode, out, p.stderr.decode('utf-8', 'replace')


def load_known():
    path = os.path.join(VERIF, 'known_findings.json')
    if not os.path.exists(path):
        return []
    with open(path, encoding='utf-8') as f:
        return json.load(f)


def write_replay(pid, payload):
    blob = json.dumps(payload, sort_keys=True, default=str)
    h = hashlib.sha1(blob.encode()).hexdigest()[:12]
    rel = os.path.join('replays', '%s-%s.json' % (pid, h))
    os.makedirs(os.path.join(VERIF, 'replays'), exist_ok=True)
    with open(os.path.join(VERIF, rel), 'w', encoding='utf-8') as f:
        json.dump(payload, f, indent=1, sort_keys=True, default=str)
    return rel


class Result:
    def __init__(self):
        self.violations = []      # list of (replay payload, found_input: bool)
        self.notes = []


def main_check(area, argv=None):
    """area: module-like object with
        ID, TARGETS, RULE, TRUSTED, ASSUMPTIONS, LEVEL_NOTE (str)
        generate(rng, tier) -> iterable of Case
        classify(case) -> finding id or None     (for oracle failures; known findings)
        replay(inp) -> Case                       (re-run one recorded input)
        search(rng, tier) -> iterable of Case     (optional; defaults to generate(thorough))
    """
    import argparse
    ap = argparse.ArgumentParser()
    ap.add_argument('--tier', default=os.environ.get('VERIF_TIER', 'quick'))
    ap.add_argument('--replay')
    ap.add_argument('--no-build', action='store_true')
    args = ap.parse_args(argv)
    tier = 'thorough' if args.tier == 'thorough' else 'quick'
    seed = int(os.environ.get('VERIF_SEED', '0') or 0)
    pid = area.ID
    t0 = time.time()
    try:
        if args.replay:
            return do_replay(area, args.replay)
        code = _check(area, pid, tier, seed, t0, args)
    except subprocess.TimeoutExpired as e:
        print('INTERNAL: timeout: %s' % e)
        code = 2
    except Exception:                                   # machinery error: never exit 1
        traceback.print_exc()
        print('INTERNAL: error in the checking machinery (not a verdict on the property)')
        code = 2
    return code


def do_replay(area, path):
    with open(path if os.path.isabs(path) else os.path.join(VERIF, path), encoding='utf-8') as f:
        payload = json.load(f)
    inp = payload.get('input')
    if inp is None:
        print('replay names a broken obligation without an input: %s' % payload.get('broken'))
        return 0
    case = area.replay(inp)
    rc, out, err = run_driver([case.line])
    print('input      : %s' % json.dumps(inp)[:2000])
    print('model line : %s' % case.line[:2000])
    print('real code  : %s' % case.out[:2000])
    print('model      : %s' % (out[0] if out else '<driver failed: %s>' % err[-500:])[:2000])
    print('predicate  : %s' % (case.fail or 'holds'))
    return 1 if case.fail else 0


def _check(area, pid, tier, seed, t0, args):
    lock = Lock()
    known = [k for k in load_known() if k.get('property') == pid]
    findings = [k for k in known if k.get('kind') == 'finding']
    rng = random.Random('%s/%s/%d' % (pid, tier, seed))
    res = Result()
    broken = []          # (trigger, what)

    # 1-3: extract, build, audit (exclusive lock)
    lock.ex()
    try:
        rc, log = run_extract()
        if rc != 0:
            # the extractor could not read the tree: the tie is broken (not a machinery error:
            # the tree is supposed to import)
            broken.append(('extract', 'tools/extract.py failed: ' + log[-800:]))
        brc, blog = (0, '')
        if not args.no_build:
            brc, blog = lake_build(area.TARGETS + ['SmppVerif.Model.Driver'])
        # a proof obligation that no longer checks does not take the executable model away: when the property modules
        # fail to build, the driver (models only) is built by itself so that the search for a failing input can still
        # compare model and implementation
        driver_built = (brc == 0)
        if brc != 0 and not args.no_build:
            drc, _dlog = lake_build(['SmppVerif.Model.Driver'])
            driver_built = (drc == 0)
        # thorough tier: the compiled property modules (and everything they import) are re-checked by leanchecker, the
        # toolchain's independent re-checker of .olean files (kernel replay of every declaration)
        recheck = None
        if tier == 'thorough' and brc == 0 and not args.no_build:
            try:
                p = subprocess.run(['lake', 'env', 'leanchecker'] + list(area.TARGETS), cwd=LEAN, capture_output=True,
                                   text=True, timeout=1500)
                recheck = (p.returncode, (p.stdout + p.stderr)[-600:])
            except (OSError, subprocess.TimeoutExpired) as e:
                recheck = (None, repr(e))
    finally:
        lock.un()
    res.notes.append('leanchecker: ' + ('not run (quick tier)' if recheck is None else
                                        'ok' if recheck[0] == 0 else 'FAILED %s' % (recheck[1],)))
    if recheck is not None and recheck[0] not in (0, None):
        broken.append(('leanchecker', 'the independent re-check of the compiled modules failed: %s' % recheck[1]))
    axioms = parse_axioms(blog)
    build_ok = (brc == 0)
    if not build_ok:
        errs = ERR_RE.findall(blog)
        if errs:
            for (path, ln, _col, msg) in errs[:5]:
                broken.append(('build', '%s: %s' % (enclosing_decl(path, int(ln)), msg[:200])))
        else:
            broken.append(('build', 'lake build failed: ' + blog[-600:]))
    dirty = {k: v for k, v in axioms.items() if not set(v) <= ALLOWED_AXIOMS}
    for k, v in dirty.items():
        broken.append(('axioms', '%s depends on %s' % (k, v)))
    hits, nfiles = audit_sources()
    for h in hits:
        broken.append(('audit', h))
    mine = {k: v for k, v in axioms.items() if ('.Props.%s.' % pid) in k}
    if build_ok and not mine:
        broken.append(('build', 'no property theorem of %s was reported by #print axioms' % pid))
    n_src = 0
    try:
        with open(os.path.join(LEAN, 'SmppVerif', 'Props', pid + '.lean'), encoding='utf-8') as f:
            n_src = len(re.findall(r'^#print axioms ', f.read(), re.M))
    except OSError:
        pass
    obligations = max(len(mine), n_src)
    discharged = len([k for k in mine if k not in dirty]) if build_ok else 0

    # 4: correspondence + predicate net
    cases = []
    tables_before = module_tables()
    # thorough tier: the generator runs THOROUGH_ROUNDS times (an attribute of the harness, default 1), each round on a random
    # stream of its own - the sampled parts differ from round to round, the exhaustive parts are repeated
    rounds = max(1, int(getattr(area, 'THOROUGH_ROUNDS', 1))) if tier == 'thorough' else 1
    if rounds > 1:
        res.notes.append('generator run %d times, each round on a random stream of its own' % rounds)
    try:
        for rnd in range(rounds):
            rng_r = rng if rnd == 0 else random.Random('%s/%s/%d/round%d' % (pid, tier, seed, rnd))
            for c in area.generate(rng_r, tier):
                cases.append(c)
    except subprocess.TimeoutExpired:
        raise
    except (Exception, asyncio.CancelledError) as e:     # noqa
        # the harness drives the real code in-process and reads its objects: on the unchanged tree this never raises, so an
        # exception here means the code no longer behaves in a way the correspondence can even be evaluated on - the tie is
        # broken (reported like a broken correspondence: the search below looks for a failing input)
        tb = traceback.format_exc()
        broken.append(('harness', 'driving the real code raised %s after %d cases: %s' % (
            type(e).__name__, len(cases), ' | '.join(tb.strip().splitlines()[-6:])[:1200])))
    # the tables the models were generated from (by a fresh process, before the run) must still be what the library holds
    # after everything the run did with it: a module-level table written to at run time is state no model describes
    try:
        changed = [k for k, v in module_tables().items() if tables_before.get(k) != v]
    except Exception as e:      # noqa
        changed = ['<unreadable: %r>' % (e,)]
    if changed:
        broken.append(('tables', 'module-level tables of the library changed while the cases ran: %s' % ', '.join(sorted(changed)[:8])))
    evaluations = len(cases)
    sigs = {}
    for c in cases:
        sigs[c.sig] = sigs.get(c.sig, 0) + 1
    disagreements = []
    driver_ok = False
    if build_ok or driver_built:
        lock.sh()
        try:
            rc, outs, err = run_driver([c.line for c in cases])
        finally:
            lock.un()
        if rc != 0 or len(outs) != len(cases):
            broken.append(('driver', 'driver exit %s, %d/%d lines; stderr: %s'
                           % (rc, len(outs), len(cases), err[-600:])))
        else:
            driver_ok = True
            for c, o in zip(cases, outs):
                if c.out != o:
                    disagreements.append((c, o))
    if disagreements:
        disagreements.sort(key=lambda d: len(d[0].line))
        c, o = disagreements[0]
        broken.append(('correspondence',
                       '%d of %d cases differ; smallest: line=%r real=%r model=%r'
                       % (len(disagreements), evaluations, c.line[:300], c.out[:300], o[:300])))

    # predicate failures on the real code
    failing = [c for c in cases if c.fail]
    listed, unlisted = [], []
    for c in failing:
        fid = area.classify(c) if hasattr(area, 'classify') else None
        if fid and any(k.get('id') == fid for k in findings):
            listed.append((fid, c))
        else:
            unlisted.append(c)

    # 5: known findings (witness replay on the real code)
    for k in findings:
        try:
            wc = area.replay(k['witness'])
        except Exception as e:                           # noqa
            wc = None
            res.notes.append('known finding %s: witness could not be replayed: %r' % (k.get('id'), e))
        if wc is not None and wc.fail:
            print('KNOWN-FINDING: property=%s %s' % (pid, k.get('what', k.get('id'))))
        elif wc is not None:
            res.notes.append('known finding %s no longer reproduces on this tree' % k.get('id'))

    # 6: decide
    violation = None
    if unlisted:
        unlisted.sort(key=lambda c: len(c.line))
        c = unlisted[0]
        violation = dict(property=pid, seed=seed, tier=tier, trigger='predicate',
                         broken=[b[1] for b in broken][:5], input=c.inp, observed=c.out[:4000],
                         expected='property predicate holds', failure=c.fail,
                         failing_input_found=True, n_failing=len(unlisted),
                         how_to_replay='./check %s --replay <this file>' % pid)
    elif broken:
        # a proof obligation, the audit or the correspondence broke: search for a failing input
        found = None
        # (a) the disagreeing cases themselves were already evaluated (c.fail) above; (b) directed search
        srch = getattr(area, 'search', None)
        budget_t = time.time() + (600 if tier == 'thorough' else 120)
        it = srch(rng, tier) if srch else area.generate(random.Random(seed + 1), 'thorough')
        n_search = 0

        def guarded(gen):
            try:
                for x in gen:
                    yield x
            except subprocess.TimeoutExpired:
                raise
            except Exception:                            # noqa  (already reported above when it comes from the harness)
                return
        for c in guarded(it):
            n_search += 1
            if c.fail:
                fid = area.classify(c) if hasattr(area, 'classify') else None
                if not (fid and any(k.get('id') == fid for k in findings)):
                    found = c
                    break
            if n_search % 1000 == 0 and time.time() > budget_t:
                break
        violation = dict(property=pid, seed=seed, tier=tier, trigger=broken[0][0],
                         broken=[b[1] for b in broken][:8], searched=n_search + evaluations,
                         how_to_replay='./check %s --replay <this file>' % pid)
        if found:
            violation.update(input=found.inp, observed=found.out[:4000], failure=found.fail,
                             expected='property predicate holds', failing_input_found=True)
        else:
            violation.update(input=(disagreements[0][0].inp if disagreements else None),
                             observed=(disagreements[0][0].out[:4000] if disagreements else None),
                             model=(disagreements[0][1][:4000] if disagreements else None),
                             failing_input_found=False)

    # 7: evidence
    wall = time.time() - t0
    samples = []
    seen = set()
    for c in cases:
        if c.sig not in seen:
            seen.add(c.sig)
            samples.append({'line': c.line[:400], 'real': c.out[:200], 'sig': str(c.sig)})
        if len(samples) >= 8:
            break
    top = sorted(sigs.items(), key=lambda kv: -kv[1])[:40]
    evidence = {
        'property_id': pid, 'tier': tier, 'seed': seed, 'level': 'proof',
        'coverage': {
            'obligations': obligations, 'discharged': discharged,
            'checker_cmd': 'cd lean && lake build %s   # then #print axioms of every property theorem, source audit'
                           % ' '.join(area.TARGETS),
            'trusted_base': area.TRUSTED,
            'theorems': {k: v for k, v in sorted(mine.items())},
            'evaluations': evaluations,
            'distinct_nontrivial': len([s for s in sigs if s is not None]),
            'rule': area.RULE,
            'samples': samples,
            'exhaustive': bool(getattr(area, 'EXHAUSTIVE', {}).get(tier, False)),
            'distribution': {str(k): v for k, v in top},
            'model_impl_disagreements': len(disagreements),
            'predicate_failures_listed_as_known': len(listed),
            'predicate_failures_unlisted': len(unlisted),
            'driver_ran': driver_ok,
            'lean_files_audited': nfiles,
            'notes': res.notes,
        },
        'assumptions': area.ASSUMPTIONS,
        'wall_s': round(wall, 2),
        'violations': 1 if violation else 0,
    }
    # (VERIF_EVIDENCE_DIR: where a run against a deliberately changed tree - seed testing - leaves its record instead)
    evdir = os.environ.get('VERIF_EVIDENCE_DIR') or os.path.join(VERIF, 'evidence')
    os.makedirs(evdir, exist_ok=True)
    with open(os.path.join(evdir, pid + '.json'), 'w', encoding='utf-8') as f:
        json.dump(evidence, f, indent=1, sort_keys=True)

    for n in res.notes:
        print('note: ' + n)
    print('%s %s: %d/%d theorems, %d cases (%d signatures), %d disagreements, %d predicate failures '
          '(%d known), %.1fs' % (pid, tier, discharged, obligations, evaluations, len(sigs),
                                 len(disagreements), len(failing), len(listed), wall))
    if violation:
        rel = write_replay(pid, violation)
        for b in broken[:8]:
            print('broken[%s]: %s' % b)
        if violation.get('failing_input_found'):
            print('failing input: %s' % json.dumps(violation.get('input'))[:600])
            print('VIOLATION property=%s replay=%s' % (pid, rel))
        else:
            print('VIOLATION property=%s replay=%s no-failing-input-found' % (pid, rel))
        return 1
    return 0


# ---- helpers for the areas -------------------------------------------------------------

def nats(text):
    """str -> comma separated code points ('-' for empty)"""
    return ','.join(str(ord(ch)) for ch in text) if text else '-'


def hexs(b):
    return bytes(b).hex() if b else '-'


def exc_name(e):
    """canonical class name of an exception raised by the real code"""
    import struct
    import asyncio
    if isinstance(e, UnicodeEncodeError):
        return 'UnicodeEncodeError'
    if isinstance(e, UnicodeDecodeError):
        return 'UnicodeDecodeError'
    if isinstance(e, struct.error):
        return 'StructError'
    if isinstance(e, asyncio.IncompleteReadError):
        return 'IncompleteReadError'
    for cls in (KeyError, IndexError, ZeroDivisionError, UnboundLocalError, OverflowError,
                AssertionError, TypeError, AttributeError,
                ConnectionError, TimeoutError):
        if isinstance(e, cls):
            return cls.__name__
    if isinstance(e, LookupError):
        return 'LookupError'
    if isinstance(e, ValueError):
        return 'ValueError'
    if isinstance(e, OSError):
        return 'OSError'
    return type(e).__name__
